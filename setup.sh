#!/bin/sh
# Builds the driver and a base Go build cache (std, std -race) from files on disk only.
set -e
here=$(cd "$(dirname "$0")" && pwd)
export GOFLAGS=-mod=mod GOPROXY=off GOSUMDB=off GOTOOLCHAIN=local
cd "$here"
mkdir -p .bin .cache
go build -o .bin/vcheck ./cmd/vcheck
base="$here/.cache/go-build-base"
if [ ! -d "$base" ]; then
  tmp="$here/.cache/go-build-base.tmp.$$"
  rm -rf "$tmp"; mkdir -p "$tmp"
  GOCACHE="$tmp" go build std
  GOCACHE="$tmp" go build -race std 2>/dev/null || true
  GOCACHE="$tmp" go vet ./vref >/dev/null 2>&1 || true
  mv "$tmp" "$base" 2>/dev/null || rm -rf "$tmp"
fi
if [ -n "$VERIF_SELFTEST" ]; then ./vcheck selftest; fi
echo "setup ok"

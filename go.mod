module verif

go 1.22

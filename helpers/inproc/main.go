// inproc runs goverter's public generation pipeline in-process (the same three
// calls runner.go makes) once per converter and per settings variant, and reports
// the outcome of every single generation as JSON lines. It is rebuilt from the
// repository working tree on every check run.
package main

import (
	"bufio"
	"encoding/json"
	"fmt"
	"os"
	"runtime/debug"

	"github.com/jmattheis/goverter/comments"
	"github.com/jmattheis/goverter/config"
	"github.com/jmattheis/goverter/generator"
)

type Variant struct {
	Name  string   `json:"name"`
	Lines []string `json:"lines"`
}

type Job struct {
	Dir        string    `json:"dir"`
	Patterns   []string  `json:"patterns"`
	BuildTags  string    `json:"buildTags"`
	Constraint string    `json:"constraint"`
	Variants   []Variant `json:"variants"`
	Mode       string    `json:"mode"` // "" = generate per converter | "rawlines" = dump ParseDocs result
	WithFiles  bool      `json:"withFiles"`
}

type Out struct {
	Variant   string            `json:"variant"`
	Converter string            `json:"converter"`
	OK        bool              `json:"ok"`
	Err       string            `json:"err,omitempty"`
	Panic     string            `json:"panic,omitempty"`
	Stage     string            `json:"stage,omitempty"`
	Files     map[string]string `json:"files,omitempty"`
	NFiles    int               `json:"nfiles"`
}

func main() {
	var job Job
	if err := json.NewDecoder(os.Stdin).Decode(&job); err != nil {
		fmt.Fprintln(os.Stderr, "bad job:", err)
		os.Exit(3)
	}
	w := bufio.NewWriter(os.Stdout)
	defer w.Flush()
	enc := json.NewEncoder(w)
	emit := func(o Out) {
		if len(o.Err) > 1200 {
			o.Err = o.Err[:1200]
		}
		enc.Encode(o)
	}
	var raws []config.RawConverter
	func() {
		defer func() {
			if r := recover(); r != nil {
				emit(Out{Stage: "parsedocs", Panic: fmt.Sprint(r) + "\n" + string(debug.Stack())})
			}
		}()
		var err error
		raws, err = comments.ParseDocs(comments.ParseDocsConfig{BuildTags: job.BuildTags, PackagePattern: job.Patterns, WorkingDir: job.Dir})
		if err != nil {
			emit(Out{Stage: "parsedocs", Err: err.Error()})
			raws = nil
		}
	}()
	if job.Mode == "rawlines" {
		for _, rc := range raws {
			b, _ := json.Marshal(rc)
			emit(Out{Stage: "rawlines", Converter: rc.InterfaceName, OK: true, Err: string(b)})
		}
		return
	}
	if job.Mode == "together" {
		// exactly what runner.go does: all converters of the run in one Parse + Generate
		for _, v := range job.Variants {
			func() {
				defer func() {
					if r := recover(); r != nil {
						emit(Out{Variant: v.Name, Converter: "*", Stage: "together", Panic: fmt.Sprint(r) + "\n" + string(debug.Stack())})
					}
				}()
				convs, err := config.Parse(&config.Raw{BuildTags: job.BuildTags, WorkDir: job.Dir, Converters: raws,
					Global: config.RawLines{Lines: v.Lines, Location: "command line (-g, -global)"}, OuputBuildConstraint: job.Constraint})
				if err != nil {
					emit(Out{Variant: v.Name, Converter: "*", Stage: "config", Err: err.Error()})
					return
				}
				files, err := generator.Generate(convs, generator.Config{BuildConstraint: job.Constraint})
				if err != nil {
					emit(Out{Variant: v.Name, Converter: "*", Stage: "generate", Err: err.Error(), NFiles: len(files)})
					return
				}
				o := Out{Variant: v.Name, Converter: "*", OK: true, NFiles: len(files), Files: map[string]string{}}
				for p, b := range files {
					o.Files[p] = string(b)
				}
				emit(o)
			}()
		}
		return
	}
	for _, v := range job.Variants {
		global := config.RawLines{Lines: v.Lines, Location: "command line (-g, -global)"}
		gen := func(name string, convs []*config.Converter) {
			defer func() {
				if r := recover(); r != nil {
					emit(Out{Variant: v.Name, Converter: name, Stage: "generate", Panic: fmt.Sprint(r) + "\n" + string(debug.Stack())})
				}
			}()
			files, err := generator.Generate(convs, generator.Config{BuildConstraint: job.Constraint})
			if err != nil {
				emit(Out{Variant: v.Name, Converter: name, Stage: "generate", Err: err.Error(), NFiles: len(files)})
				return
			}
			o := Out{Variant: v.Name, Converter: name, OK: true, NFiles: len(files)}
			if job.WithFiles {
				o.Files = map[string]string{}
				for p, b := range files {
					o.Files[p] = string(b)
				}
			}
			emit(o)
		}
		nameOf := func(rc config.RawConverter) string {
			if rc.InterfaceName != "" {
				return rc.InterfaceName
			}
			return "vars:" + rc.FileName
		}
		// fast path: parse all converters at once (one package load); config.Parse keeps the input order
		// only up to a sort by Name, so converters are matched by interface name.
		bulk := func() (ok bool) {
			defer func() {
				if r := recover(); r != nil {
					ok = false
				}
			}()
			convs, err := config.Parse(&config.Raw{BuildTags: job.BuildTags, WorkDir: job.Dir, Converters: raws, Global: global, OuputBuildConstraint: job.Constraint})
			if err != nil || len(convs) != len(raws) {
				return false
			}
			for _, c := range convs {
				name := c.Name
				if c.OutputFormat == config.FormatStruct && len(name) > 4 {
					name = name[:len(name)-4] // strip "Impl" (no goverter:name in bulk universes)
				}
				gen(name, []*config.Converter{c})
			}
			return true
		}
		if job.Mode == "bulk" && bulk() {
			continue
		}
		for i := range raws {
			rc := raws[i]
			name := nameOf(rc)
			var convs []*config.Converter
			failed := false
			func() {
				defer func() {
					if r := recover(); r != nil {
						failed = true
						emit(Out{Variant: v.Name, Converter: name, Stage: "config", Panic: fmt.Sprint(r) + "\n" + string(debug.Stack())})
					}
				}()
				var err error
				convs, err = config.Parse(&config.Raw{BuildTags: job.BuildTags, WorkDir: job.Dir, Converters: []config.RawConverter{rc}, Global: global, OuputBuildConstraint: job.Constraint})
				if err != nil {
					failed = true
					emit(Out{Variant: v.Name, Converter: name, Stage: "config", Err: err.Error()})
				}
			}()
			if !failed {
				gen(name, convs)
			}
		}
	}
}

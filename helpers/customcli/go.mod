module vhelper

go 1.22.0

// customcli is the documented way to extend goverter with a custom enum transformer
// (docs/reference/enum.md "enum:transform CUSTOM"): a main package that passes
// EnumTransformers to cli.Run. It registers "trim-prefix" next to the built-in "regex".
package main

import (
	"os"
	"strings"

	"github.com/jmattheis/goverter/cli"
	"github.com/jmattheis/goverter/enum"
)

func trimPrefix(ctx enum.TransformContext) (map[string]string, error) {
	m := map[string]string{}
	for key := range ctx.Source.Members {
		targetKey := strings.TrimPrefix(key, ctx.Config)
		if _, ok := ctx.Target.Members[targetKey]; ok {
			m[key] = targetKey
		}
	}
	return m, nil
}

func main() {
	cli.Run(os.Args, cli.RunOpts{EnumTransformers: map[string]enum.Transformer{"trim-prefix": trimPrefix}})
}

#!/bin/bash
# Runs every seeded change under /verif/seeded against the quick check of its own property
# (plus extra checks given as "id:Cxx,Cyy" pairs in tools/mutant_extra.txt). Output: one line per (mutant, check).
tier=${1:-quick}
out=${2:-/tmp/mutant-matrix.txt}
: > $out
for d in /verif/seeded/C*-*; do
  id=$(basename $d); prop=${id%%-*}
  extra=$(grep "^$id:" /verif/tools/mutant_extra.txt 2>/dev/null | cut -d: -f2 | tr ',' ' ')
  /verif/tools/run_mutant.sh $d $tier $prop $extra >> $out 2>&1
done
echo done >> $out

#!/bin/bash
# Runs seeded changes under /verif/seeded against the quick check of their own property
# (plus extra checks given as "id:Cxx,Cyy" in tools/mutant_extra.txt). One line per (mutant, check).
# usage: mutant_matrix.sh <tier> <outfile> [id-glob] [parallel]
tier=${1:-quick}
out=${2:-/tmp/mutant-matrix.txt}
glob=${3:-*}
par=${4:-3}
: > $out
run_one() {
  d=$1; tier=$2
  id=$(basename $d)
  prop=$(echo $id | grep -o 'C[0-9][0-9]' | head -1)
  extra=$(grep "^$id:" ${VERIF_TOOLS_HOME:-/verif}/tools/mutant_extra.txt 2>/dev/null | cut -d: -f2 | tr ',' ' ')
  ${VERIF_TOOLS_HOME:-/verif}/tools/run_mutant.sh $d $tier $prop $extra
}
export -f run_one
ls -d ${VERIF_TOOLS_HOME:-/verif}/seeded/$glob | while read d; do [ -f $d/patch.diff ] && echo $d; done | xargs -P $par -I{} bash -c "run_one {} $tier" >> $out 2>&1
echo done >> $out

#!/bin/bash
# Runs seeded changes under /verif/seeded against the quick check of their own property
# (plus extra checks given as "id:Cxx,Cyy" in tools/mutant_extra.txt). One line per (mutant, check).
# usage: mutant_matrix.sh <tier> <outfile> [id-glob]
tier=${1:-quick}
out=${2:-/tmp/mutant-matrix.txt}
glob=${3:-*}
: > $out
for d in /verif/seeded/$glob; do
  [ -f $d/patch.diff ] || continue
  id=$(basename $d)
  prop=$(echo $id | grep -o 'C[0-9][0-9]' | head -1)
  extra=$(grep "^$id:" /verif/tools/mutant_extra.txt 2>/dev/null | cut -d: -f2 | tr ',' ' ')
  /verif/tools/run_mutant.sh $d $tier $prop $extra >> $out 2>&1
done
echo done >> $out

#!/bin/bash
# Runs checks against a seeded change: scratch worktree of /repo HEAD + patch, VERIF_REPO pointing at it.
# usage: run_mutant.sh <seeded-dir> <tier> <prop> [<prop>...]   -> prints "<id> <prop> exit=<n> <first VIOLATION summary>"
export GOFLAGS=-mod=mod GOPROXY=off GOSUMDB=off GOTOOLCHAIN=local
d=$1; tier=$2; shift 2
id=$(basename $d)
wt=/tmp/mut-wt-$id
out=/tmp/mut-out-$id
rm -rf $wt $out; mkdir -p $out
git -C /repo worktree prune
git -C /repo worktree add -q --detach $wt HEAD || { echo "$id WORKTREE-FAIL"; exit 2; }
trap 'git -C /repo worktree remove --force $wt >/dev/null 2>&1; rm -rf $wt' EXIT
if ! git -C $wt apply $d/patch.diff 2>/dev/null; then
  git -C $wt apply -3 $d/patch.diff >/dev/null 2>&1 || { echo "$id APPLY-FAIL"; exit 2; }
fi
for p in "$@"; do
  VERIF_REPO=$wt VERIF_OUT_DIR=$out ${VERIF_TOOLS_HOME:-/verif}/vcheck run $p --tier $tier > $out/$p.log 2>&1
  code=$?
  sum=$(grep -A1 -m1 "^VIOLATION" $out/$p.log | tail -1 | cut -c1-200)
  echo "$id $p exit=$code $sum"
done

#!/usr/bin/env python3
"""Writes /verif/seeded/<id>/meta.json from the sub-agent's meta, my verification log and the mutant matrix."""
import json, os, re, sys, glob
src_dirs = sys.argv[1:] or ['/tmp/seeded-out', '/tmp/seeded-out2']
verify = {}
for f in ['/tmp/vs-results.txt', '/tmp/vs-results2.txt']:
    if os.path.exists(f):
        for l in open(f):
            m = re.match(r'(\S+) suite=(\d+) demo_clean=(\d+) demo_patched=(\d+)', l)
            if m: verify[m.group(1)] = dict(suite_exit=int(m.group(2)), demo_unchanged_exit=int(m.group(3)), demo_patched_exit=int(m.group(4)))
matrix = {}
for f in ['/tmp/mutant-matrix.txt', '/tmp/mutant-matrix2.txt', '/tmp/mutant-matrix-final.txt']:
    if os.path.exists(f):
        for l in open(f):
            m = re.match(r'(\S+) (C\d+) exit=(\d+)\s*(.*)', l)
            if m: matrix.setdefault(m.group(1), {})[m.group(2)] = dict(exit=int(m.group(3)), first_violation=m.group(4).strip())
for d in sorted(glob.glob('/verif/seeded/*-*')):
    sid = os.path.basename(d)
    agent = {}
    for sd in src_dirs:
        p = os.path.join(sd, sid.replace('r2-', ''), 'meta.json') if sid.startswith('r2-') else os.path.join(sd, sid, 'meta.json')
        if os.path.exists(p):
            agent = json.load(open(p)); break
    v = verify.get(sid, {})
    mx = matrix.get(sid, {})
    meta = {
        'id': sid,
        'property': agent.get('property', sid.replace('r2-', '').split('-')[0]),
        'summary': agent.get('summary', ''),
        'needs_to_manifest': agent.get('needs', ''),
        'files_changed': agent.get('files_changed', []),
        'origin': 'written by an independent sub-agent that saw only the property text and a scratch worktree',
        'confirmed_by_me': {
            'how': 'tools/verify_seeded.sh: patch applied to a scratch worktree of /repo HEAD, go build ./..., full test suite (go test -mod=mod -vet=off -count=1 ./...), demo/run.sh on the clean and on the patched worktree',
            **v,
        },
        'checks_run': {k: ('VIOLATION: ' + x['first_violation'] if x['exit'] == 1 else 'exit %d (not detected)' % x['exit']) for k, x in sorted(mx.items())},
        'caught_by': sorted(k for k, x in mx.items() if x['exit'] == 1),
    }
    json.dump(meta, open(os.path.join(d, 'meta.json'), 'w'), indent=1)
print('wrote', len(glob.glob('/verif/seeded/*-*/meta.json')))

#!/bin/bash
# Confirms a candidate seeded change: applies to /repo HEAD in a scratch worktree, compiles,
# full suite passes, demo fails with the change and passes without it.
# usage: verify_seeded.sh <candidate-dir> ; prints one result line; exit 0 if confirmed
export GOFLAGS=-mod=mod GOPROXY=off GOSUMDB=off GOTOOLCHAIN=local
d=$1; id=$(basename $d)
wt=/tmp/vs-wt-$id
rm -rf $wt; git -C /repo worktree prune; git -C /repo worktree add -q --detach $wt HEAD || { echo "$id WORKTREE-FAIL"; exit 2; }
trap 'git -C /repo worktree remove --force $wt >/dev/null 2>&1; rm -rf $wt' EXIT
clean_demo=$(bash $d/demo/run.sh $wt >/tmp/vs-$id.clean.log 2>&1; echo $?)
if ! git -C $wt apply $d/patch.diff 2>/dev/null; then
  if ! git -C $wt apply -3 $d/patch.diff >/dev/null 2>&1; then echo "$id APPLY-FAIL"; exit 2; fi
fi
git -C $wt diff HEAD > /tmp/vs-$id.applied.diff
(cd $wt && go build ./... ) >/tmp/vs-$id.build.log 2>&1 || { echo "$id BUILD-FAIL"; exit 2; }
suite=$(cd $wt && go test -mod=mod -vet=off -count=1 -timeout 25m ./... >/tmp/vs-$id.suite.log 2>&1; echo $?)
patched_demo=$(bash $d/demo/run.sh $wt >/tmp/vs-$id.patched.log 2>&1; echo $?)
echo "$id suite=$suite demo_clean=$clean_demo demo_patched=$patched_demo"
[ "$suite" = 0 ] && [ "$clean_demo" = 0 ] && [ "$patched_demo" = 1 ]

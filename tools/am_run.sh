#!/bin/bash
# Runs all 19 quick checks against each suite-surviving automatic mutant (tools/mutgen) and
# prints "<id> caught_by=<list>|MISSED <description>". usage: am_run.sh <am-dir> <parallel> <outfile>
export GOFLAGS=-mod=mod GOPROXY=off GOSUMDB=off GOTOOLCHAIN=local
am=$1; par=${2:-3}; out=${3:-/tmp/am-results.txt}
one() {
  d=$1
  id=$(basename $d)
  res=$(VERIF_WORKERS=5 ${VERIF_TOOLS_HOME:-/verif}/tools/run_mutant.sh $d quick C01 C02 C03 C04 C05 C06 C07 C08 C09 C10 C11 C12 C13 C14 C15 C16 C17 C18 C19)
  echo "$res" > $d/checks.txt
  caught=$(echo "$res" | grep 'exit=1' | awk '{print $2}' | tr '\n' ',')
  odd=$(echo "$res" | grep -v 'exit=[01]' | awk '{print $2 $3}' | tr '\n' ',')
  echo "$id caught_by=${caught:-MISSED} odd=${odd:-none} :: $(cat $d/desc.txt)"
}
export -f one
for d in $am/am*; do
  [ "$(cat $d/status 2>/dev/null)" = survived ] && [ ! -f $d/checks.txt ] && echo $d
done | xargs -P $par -I{} bash -c "one {}" >> $out
echo done >> $out

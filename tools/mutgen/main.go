// mutgen enumerates small syntactic mutations of goverter's non-test sources and writes
// one unified diff per sampled mutation. Development aid for section 8.4 of DESIGN.md:
// the mutants that survive the repository's own suite are run against the checks.
// usage: mutgen <repo> <outdir> <seed> <count>
package main

import (
	"fmt"
	"go/ast"
	"go/parser"
	"go/token"
	"math/rand"
	"os"
	"os/exec"
	"path/filepath"
	"strconv"
	"strings"
)

type mut struct {
	file       string
	start, end int
	repl       string
	desc       string
}

var swaps = map[token.Token]string{
	token.EQL: "!=", token.NEQ: "==", token.LAND: "||", token.LOR: "&&",
	token.LSS: "<=", token.LEQ: "<", token.GTR: ">=", token.GEQ: ">",
}

func main() {
	repo, out := os.Args[1], os.Args[2]
	seed, _ := strconv.ParseInt(os.Args[3], 10, 64)
	count, _ := strconv.Atoi(os.Args[4])
	dirs := []string{"builder", "xtype", "config", "config/parse", "generator", "method", "namer", "pkgload", "comments", "enum", "cli", "."}
	var muts []mut
	for _, d := range dirs {
		files, _ := filepath.Glob(filepath.Join(repo, d, "*.go"))
		for _, f := range files {
			if strings.HasSuffix(f, "_test.go") {
				continue
			}
			src, err := os.ReadFile(f)
			if err != nil {
				continue
			}
			fset := token.NewFileSet()
			af, err := parser.ParseFile(fset, f, src, 0)
			if err != nil {
				continue
			}
			rel, _ := filepath.Rel(repo, f)
			off := func(p token.Pos) int { return fset.Position(p).Offset }
			ast.Inspect(af, func(n ast.Node) bool {
				switch x := n.(type) {
				case *ast.BinaryExpr:
					if r, ok := swaps[x.Op]; ok {
						muts = append(muts, mut{rel, off(x.OpPos), off(x.OpPos) + len(x.Op.String()), r,
							fmt.Sprintf("%s:%d %s -> %s", rel, fset.Position(x.OpPos).Line, x.Op, r)})
					}
				case *ast.UnaryExpr:
					if x.Op == token.NOT {
						muts = append(muts, mut{rel, off(x.OpPos), off(x.OpPos) + 1, "",
							fmt.Sprintf("%s:%d drop !", rel, fset.Position(x.OpPos).Line)})
					}
				case *ast.IfStmt:
					switch x.Cond.(type) {
					case *ast.BinaryExpr, *ast.UnaryExpr:
					default:
						s, e := off(x.Cond.Pos()), off(x.Cond.End())
						muts = append(muts, mut{rel, s, e, "!(" + string(src[s:e]) + ")",
							fmt.Sprintf("%s:%d negate if", rel, fset.Position(x.Cond.Pos()).Line)})
					}
				case *ast.BlockStmt:
					for _, st := range x.List {
						if es, ok := st.(*ast.ExprStmt); ok {
							if _, ok := es.X.(*ast.CallExpr); ok {
								s, e := off(es.Pos()), off(es.End())
								if strings.HasPrefix(string(src[s:e]), "panic(") {
									continue
								}
								muts = append(muts, mut{rel, s, e, "{}",
									fmt.Sprintf("%s:%d drop call stmt", rel, fset.Position(es.Pos()).Line)})
							}
						}
						if as, ok := st.(*ast.AssignStmt); ok && as.Tok == token.ASSIGN && len(as.Lhs) == 1 {
							if _, ok := as.Lhs[0].(*ast.SelectorExpr); ok {
								s, e := off(as.Pos()), off(as.End())
								muts = append(muts, mut{rel, s, e, "{}",
									fmt.Sprintf("%s:%d drop field assignment", rel, fset.Position(as.Pos()).Line)})
							}
						}
					}
				}
				return true
			})
		}
	}
	fmt.Fprintf(os.Stderr, "%d mutation sites\n", len(muts))
	r := rand.New(rand.NewSource(seed))
	r.Shuffle(len(muts), func(i, j int) { muts[i], muts[j] = muts[j], muts[i] })
	if count > len(muts) {
		count = len(muts)
	}
	os.MkdirAll(out, 0o755)
	for i, m := range muts[:count] {
		p := filepath.Join(repo, m.file)
		src, _ := os.ReadFile(p)
		tmp := filepath.Join(out, "new.go")
		os.WriteFile(tmp, []byte(string(src[:m.start])+m.repl+string(src[m.end:])), 0o644)
		cmd := exec.Command("diff", "-u", "--label", "a/"+m.file, "--label", "b/"+m.file, p, tmp)
		diff, _ := cmd.Output()
		dir := filepath.Join(out, fmt.Sprintf("am%d-%03d", seed, i))
		os.MkdirAll(dir, 0o755)
		os.WriteFile(filepath.Join(dir, "patch.diff"), diff, 0o644)
		os.WriteFile(filepath.Join(dir, "desc.txt"), []byte(m.desc+"\n"), 0o644)
		os.Remove(tmp)
	}
}

#!/usr/bin/env python3
"""Regenerates MANIFEST.json from the table below (checks registered so far)."""
import json, os
here = os.path.dirname(os.path.dirname(os.path.abspath(__file__)))
props = [json.loads(l) for l in open(os.path.join(here, 'properties.jsonl'))]

CHECKS = {
 'C01': dict(cat='exploration', sec='4/C01', tech='runtime monitoring: real CLI runs on generated programs; Go compiler + IR-derived API assertion files + AST monitor over emitted files',
   text='Every program of a seeded product (type shapes x names x formats x layouts x settings) that goverter reports as success is compiled with assertion files derived from the input IR and its declared methods are called; held on the explored cases only.',
   note='trusts the Go compiler/go/parser; assertion files come from the generator IR; hostile package names that shadow locals are a pinned known finding'),
 'C02': dict(cat='exploration', sec='4/C02', tech='runtime monitoring: emitted converters executed on generated values against a reflective reference mapping, panic/crash monitor',
   text='Emitted converters of a seeded structural corpus are executed on systematic and random values (nil at every position, empty vs nil, extremes, shared substructures) and compared bit-exactly with an independent reference; panics and crashes are violations.',
   note='reference mapping written from the documentation; map keys injective; acyclic values; the array->slice assignment defect is a pinned known finding'),
 'C03': dict(cat='exploration', sec='4/C03', tech='runtime monitoring: in-process generation (public API) over completely enumerated type-pair universes, outcome monitor vs independent convertibility judgement; CLI cross-validation',
   text='All ordered pairs of the depth-1 universe (175 types, 30k pairs) per settings variant, plus the depth-2 universe in thorough, are generated one converter per pair; success/failure and error class are compared with the judgement J written from the documentation; a sample is replayed through the real CLI.',
   note='J is the trusted model; finite universes are enumerated completely, beyond them nothing is claimed'),
 'C04': dict(cat='exploration', sec='4/C04', tech='runtime monitoring: address-set (aliasing) monitor, source snapshot, mutation probes, Go race detector on concurrent calls of emitted code',
   text='Per executed conversion the memory reachable from source and result must be disjoint (except identical-type positions under skipCopySameType), the source unchanged, mutation of one side invisible on the other; concurrent calls on a shared source run under the race detector.',
   note='race detector judges executed interleavings only; address arithmetic via reflect/unsafe'),
 'C09': dict(cat='exploration', sec='4/C09', tech='runtime monitoring: repeated / permuted / relocated / in-process / regenerating runs of the real CLI in fresh processes; byte comparison of exit status, normalised diagnostic and written files against a reference run',
   text='Programs built to contain several candidates for every map-ordered decision (and failing programs with several simultaneous faults) are run by a reference process and by k further fresh processes, with permuted/duplicated/wildcard patterns, -cwd, GOMAXPROCS=1, a relocated copy, the in-process API and on top of their own output; every observation must equal the reference byte for byte.',
   note='an order dependence between two candidates escapes k repeats with probability 2^-(k-1); fixed program set plus seeds'),
 'C12': dict(cat='exploration', sec='4/C12', tech='runtime monitoring: one probe program per cell of the complete settings precedence table run through the real CLI; observed outcome/emitted effect vs resolution model; sibling-isolation and invalid-placement oracles',
   text='All 4^3 cells {absent,bare,yes,no} x {CLI,converter,method} of every inheritable boolean and all 3^3 placements of the valued settings are run, alone and next to opposite-valued sibling methods/converters and with siblings sharing a generated sub-method; invalid placements, unknown keys, malformed values and wrapErrors/wrapErrorsUsing conflicts must fail naming where they were written.',
   note='resolution model from docs/reference/define-settings.md; method-level values are observed only above generated sub-method boundaries'),
 'C13': dict(cat='exploration', sec='4/C13', tech='runtime monitoring: one watched child process of the real CLI per fuzzed input (type grammar, directive grammar+mutation, argv); exit-status/stderr/panic-dump/hang monitor',
   text='Thousands of generated inputs over the exotic part of the Go type grammar, mutated directives at every directive position and random argument vectors are each run in their own CLI process under a watchdog; exit status must be 0 or 1, no Go panic dump, failures carry a diagnostic naming the declaration.',
   note='hang = no termination within 60 s (300x normal); non-compiling generated inputs are dropped before goverter sees them'),
 'C14': dict(cat='exploration', sec='4/C14', tech='runtime monitoring: enumerated signature shapes, each one real CLI run compared with a role-classification model; accepted shapes compiled against their declaration and executed with distinct argument values (routing monitor)',
   text='Converter methods, function variables, extend, map|FUNC, default and struct-method sources are enumerated over roles x results x naming (0-3 parameters; thorough: completely): acceptance must equal the documented classification, accepted shapes must compile against the declared interface/variable and route every context value to the custom function of its type while converting the source.',
   note='classification model from docs/reference/signature.md; contexts have pairwise distinct types'),
 'C15': dict(cat='exploration', sec='4/C15', tech='runtime monitoring: real CLI under strace in scratch module trees; written-path set, package clause, open/mkdir mode arguments vs an independent layout model',
   text='Seeded layout scenarios (output:file default/relative/parent/absolute/@cwd/same-package x output:package absent/PATH/PATH:NAME/:NAME x existing target package x shared files x invocation from root, sub-directory, -cwd) are run through the real CLI; the set of written paths, each package clause and the requested modes must equal the layout model, conflicting shared files must be rejected, and the module must build.',
   note='layout model written from docs/reference/output.md; inconsistent output:package PATH and :NAME compile edge cases are not judged'),
 'C16': dict(cat='exploration', sec='4/C16', tech='runtime monitoring: regeneration histories through the real CLI over prior output states; header monitor on every emitted file; byte comparison with clean-tree generation',
   text='The complete table layouts x build-tag/constraint pairs x prior output state (absent, current, older version, longer, truncated, syntactically broken) is run: the last run must exit 0 and leave bytes equal to a clean-tree generation, and every emitted file must start with header, //go:build line (absent iff configured empty), blank line, package clause.',
   note='complementary tag pairs only; broken prior output without the constraint line is outside the guarantee'),
 'C17': dict(cat='fault_enumeration', sec='4/C17', tech='runtime monitoring: real CLI under strace (syscall log of file-system effects) with enumerated faulty-converter subsets, prior output states and injected I/O faults; tree digest before/after',
   text='For multi-package scenarios every subset of converters (all subsets up to 4 converters) is made faulty at directive, signature or conversion stage; a failing run must exit 1 with a diagnostic and perform no mutating syscall below the module tree; fault-free runs must leave exactly the in-process result; help/usage vectors and strace-injected ENOSPC/EACCES faults complete the enumeration.',
   note='strace -ff -y sees all syscalls of the CLI and children; in-process public API result is the byte reference for successful runs'),
 'C19': dict(cat='exploration', sec='4/C19', tech='runtime monitoring: generated comment layouts observed by three observers (independent go/parser extractor, goverter public API raw lines, real CLI effect) against the generator ground truth',
   text='Random comment layouts around converter interfaces, variables blocks, methods and custom functions (line/block comments, tabs, blanks, CRLF, grouped declarations, decoys in detached/trailing/body positions) are generated with known ground truth; ParseDocs raw lines and the CLI effect (name, output path, ignored field, argument roles of custom functions) must agree; wrong-kind markers must fail.',
   note='marker test is a substring test by specification, so prose containing the literal marker is not generated'),
 'C18': dict(cat='exploration', sec='4/C18', tech='runtime monitoring: AST monitor over every file emitted by real CLI runs (import whitelist from the input IR, declaration kinds)',
   text='Every emitted file of the corpus is parsed: no reflect/unsafe, imports only from the packages the case owns (plus fmt / wrapErrorsUsing package when configured), only converter struct, funcs and init at top level.',
   note='go/parser; allowed import set known from the generator IR'),
}

checks = []
for p in props:
    c = CHECKS.get(p['id'])
    if not c:
        continue
    checks.append({
        'property_id': p['id'],
        'quick_cmd': './vcheck run %s --tier quick' % p['id'],
        'thorough_cmd': './vcheck run %s --tier thorough' % p['id'],
        'evidence_file': '/verif/evidence/%s.json' % p['id'],
        'replay_cmd_template': './vcheck replay {path}',
        'engine': 'vcheck',
        'level_claimed': {'category': c['cat'], 'text': c['text'], 'design_ref': 'DESIGN.md section ' + c['sec']},
        'level_note': c['note'],
        'technique': c['tech'],
    })
na = [{'property_id': p['id'], 'reason': 'check not built yet (framework under construction); runtime monitoring applies, see DESIGN.md section 4'} for p in props if p['id'] not in CHECKS]
m = {
 'version': 1,
 'setup_cmd': './setup.sh',
 'hooks': {'guard': 'verif', 'enable': 'no hooks: checks observe the CLI process boundary, the public packages and the emitted code; nothing in /repo is instrumented (tag verif reserved)', 'baseline_off_cmd': 'cd /repo && go test -mod=mod -json -vet=off -count=1 -timeout 25m ./...', 'source_commits': [], 'add_only': True},
 'engines': [
  {'name': 'vcheck', 'path': '/verif/vcheck', 'serves_properties': sorted(CHECKS), 'kind_free_text': 'Go driver: program generator (internal/pgen), CLI/process monitor and scratch-module pipeline (internal/core), runtime harness linked with emitted code (vref), per-property oracles (checks)'},
 ],
 'checks': checks,
 'notes': 'Fix commits in /repo: see known-findings.txt (fixed: lines). VERIF_SEED selects the seed, VERIF_REPO an alternative source tree, VERIF_KEEP=1 keeps the scratch directory.',
 'not_applicable': na,
}
json.dump(m, open(os.path.join(here, 'MANIFEST.json'), 'w'), indent=1)
print('checks:', len(checks), 'not_applicable:', len(na))

package checks

import (
	"fmt"
	"os"
	"path/filepath"
	"strings"
	"time"

	"verif/internal/core"
)

// handSrc holds hand-written "converters": a correct one per monitor and variants with one seeded bug each.
const handSrc = `package hand

type In struct {
	V int
	L []int
	P *int
	M map[string]int
	N *Node
}
type Node struct {
	X    int
	Next *Node
}
type Out struct {
	V int
	L []int
	P *int
	M map[string]int
	N *NodeT
}
type NodeT struct {
	X    int
	Next *NodeT
}

func node(n *Node) *NodeT {
	if n == nil {
		return nil
	}
	return &NodeT{X: n.X, Next: node(n.Next)}
}

func good(s In) Out {
	var o Out
	o.V = s.V
	if s.L != nil {
		o.L = make([]int, len(s.L))
		copy(o.L, s.L)
	}
	if s.P != nil {
		x := *s.P
		o.P = &x
	}
	if s.M != nil {
		o.M = make(map[string]int, len(s.M))
		for k, v := range s.M {
			o.M[k] = v
		}
	}
	o.N = node(s.N)
	return o
}

// Good is the correct deep copy.
func Good(s In) Out { return good(s) }

// AliasSlice shares the backing array.
func AliasSlice(s In) Out { o := good(s); o.L = s.L; return o }

// AliasPtr shares the pointer target.
func AliasPtr(s In) Out { o := good(s); o.P = s.P; return o }

// AliasMap shares the map.
func AliasMap(s In) Out { o := good(s); o.M = s.M; return o }

// WriteSource modifies the source slice.
func WriteSource(s In) Out {
	o := good(s)
	if len(s.L) > 0 {
		s.L[0]++
	}
	return o
}

// NilToEmpty turns a nil slice into an empty one.
func NilToEmpty(s In) Out {
	o := good(s)
	if o.L == nil {
		o.L = []int{}
	}
	return o
}

// EmptyToNil turns an empty map into nil.
func EmptyToNil(s In) Out {
	o := good(s)
	if len(o.M) == 0 {
		o.M = nil
	}
	return o
}

// DropElement loses the last slice element.
func DropElement(s In) Out {
	o := good(s)
	if len(o.L) > 1 {
		o.L = o.L[:len(o.L)-1]
	}
	return o
}

// Panics dereferences a nil pointer.
func Panics(s In) Out { o := good(s); o.V += *s.P - *s.P; return o }

var cache = map[int]int{}

// RacyCache keeps package-level state.
func RacyCache(s In) Out { cache[s.V&3]++; return good(s) }

// ShallowNode shares the tail of the linked list.
func ShallowNode(s In) Out {
	o := good(s)
	if s.N != nil && s.N.Next != nil {
		o.N.Next.X = s.N.Next.X + 0
	}
	return o
}
`

// SelfTest checks the runtime monitors on hand-written converters: the correct one must be silent, every seeded bug
// must be flagged with the kind of the monitor that is responsible for it.
func SelfTest(e *core.Env) int {
	m, err := core.NewModule(e, "selftest")
	if err != nil {
		fmt.Println("selftest:", err)
		return 2
	}
	dir := filepath.Join(m.Dir, "hand")
	os.MkdirAll(dir, 0o755)
	os.WriteFile(filepath.Join(dir, "hand.go"), []byte(handSrc), 0o644)
	type tc struct {
		fn   string
		want []string // acceptable violation kinds; empty = must be silent
		race bool
	}
	tcs := []tc{
		{"Good", nil, false},
		{"AliasSlice", []string{"alias", "mutating_result_changed_source"}, false},
		{"AliasPtr", []string{"alias", "mutating_result_changed_source"}, false},
		{"AliasMap", []string{"alias", "mutating_result_changed_source"}, false},
		{"WriteSource", []string{"source_modified"}, false},
		{"NilToEmpty", []string{"value"}, false},
		{"EmptyToNil", []string{"value"}, false},
		{"DropElement", []string{"value"}, false},
		{"Panics", []string{"panic"}, false},
	}
	var glue strings.Builder
	glue.WriteString("package main\n\nimport (\n\t\"os\"\n\t\"vcase/hand\"\n\t\"vcase/vref\"\n)\n\nfunc main() {\n\to := vref.Open(os.Args[1:])\n")
	for _, t := range tcs {
		spec := fmt.Sprintf(`{"case":%q,"seed":7,"nvalues":40,"monitors":["value","intact","alias","mutate"],"methods":[{"name":"F","roles":["source"],"flags":{}}]}`, t.fn)
		fmt.Fprintf(&glue, "\to.Do(%q, func(o *vref.Out) { vref.RunCase(o, %q, map[string]any{\"F\": hand.%s}) })\n", t.fn, spec, t.fn)
	}
	// the racy one runs the concurrent driver (needs -race)
	spec := `{"case":"RacyCache","seed":7,"nvalues":4,"monitors":["concurrent"],"methods":[{"name":"F","roles":["source"],"flags":{}}]}`
	fmt.Fprintf(&glue, "\to.Do(\"RacyCache\", func(o *vref.Out) { vref.RunCase(o, %q, map[string]any{\"F\": hand.RacyCache}) })\n", spec)
	glue.WriteString("\to.Close()\n}\n")
	os.MkdirAll(filepath.Join(m.Dir, "zzself"), 0o755)
	os.WriteFile(filepath.Join(m.Dir, "zzself", "main.go"), []byte(glue.String()), 0o644)
	bin := filepath.Join(m.Dir, "self.bin")
	build := core.RunCmd("go", []string{"build", "-race", "-o", bin, "./zzself"}, core.RunOpts{Dir: m.Dir, Env: e.GoEnv(), Timeout: 5 * time.Minute})
	if build.Exit != 0 {
		fmt.Println("selftest: build failed:", build.Stderr)
		return 2
	}
	logf := filepath.Join(m.Dir, "self-events.jsonl")
	env := append(e.GoEnv(), "GORACE=halt_on_error=0 log_path="+filepath.Join(m.Dir, "race.log"))
	// the RacyCache case may crash the process with "concurrent map writes": that is a detection, too
	run := core.RunCmd(bin, []string{logf}, core.RunOpts{Dir: m.Dir, Env: env, Timeout: 5 * time.Minute})
	evs, _ := os.ReadFile(logf)
	ok := true
	for _, t := range tcs {
		kinds := map[string]bool{}
		for _, l := range strings.Split(string(evs), "\n") {
			if strings.Contains(l, `"case":"`+t.fn+`"`) && strings.Contains(l, `"ev":"method"`) {
				for _, k := range []string{"alias", "mutating_result_changed_source", "mutating_source_changed_result", "source_modified", "source_pointers_modified", "value", "panic"} {
					if strings.Contains(l, `"kind":"`+k+`"`) {
						kinds[k] = true
					}
				}
			}
		}
		if len(t.want) == 0 {
			if len(kinds) > 0 {
				fmt.Printf("selftest FAIL: correct converter %s was flagged: %v\n", t.fn, kinds)
				ok = false
			} else {
				fmt.Printf("selftest ok: %s silent\n", t.fn)
			}
			continue
		}
		hit := false
		for _, w := range t.want {
			if kinds[w] {
				hit = true
			}
		}
		if !hit {
			fmt.Printf("selftest FAIL: seeded bug %s not flagged as %v (got %v)\n", t.fn, t.want, kinds)
			ok = false
		} else {
			fmt.Printf("selftest ok: %s flagged (%v)\n", t.fn, keysOfBool(kinds))
		}
	}
	reports := m.RaceReports()
	racy := false
	for _, r := range reports {
		if strings.Contains(r, "hand.RacyCache") {
			racy = true
		}
	}
	if strings.Contains(run.Stderr, "concurrent map writes") {
		racy = true
	}
	if !racy {
		fmt.Println("selftest FAIL: package-level cache under concurrent calls was not reported by the race detector")
		ok = false
	} else {
		fmt.Println("selftest ok: RacyCache reported by the race detector")
	}
	if !ok {
		return 1
	}
	return 0
}

func keysOfBool(m map[string]bool) []string {
	var k []string
	for x := range m {
		k = append(k, x)
	}
	return k
}

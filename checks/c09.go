package checks

import (
	"fmt"
	"math/rand"
	"os"
	"path/filepath"
	"sort"
	"strings"
	"time"

	"verif/internal/core"
	"verif/internal/pgen"
)

func init() { Registry["C09"] = C09 }

type c09Prog struct {
	name    string
	files   map[string]string
	pkgs    []string // package patterns in canonical order
	fails   bool
	note    string
	sub     string // working sub-directory inside the module (generated programs live below their case name)
	anyExit bool   // generated programs: the reference decides whether it succeeds
}

func c09Programs() []c09Prog {
	var ps []c09Prog
	// S1: several methods with one signature and different contexts, used from nested positions
	ps = append(ps, c09Prog{name: "contexts", pkgs: []string{"./p"}, note: "same signature, different context sets",
		files: map[string]string{"p/input.go": `package p

type In struct{ A Inner; B []Inner }
type Inner struct{ V int }
type Out struct{ A InnerOut; B []InnerOut }
type InnerOut struct{ V int }
type CtxA struct{ X int }
type CtxB struct{ Y int }

// goverter:converter
// goverter:extend WithA WithB
type Converter interface {
	// goverter:context a
	OnlyA(source In, a CtxA) Out
	// goverter:context b
	OnlyB(source In, b CtxB) Out
	// goverter:context a
	Zeta(source []Inner, a CtxA) []InnerOut
	// goverter:context b
	Mike(source []Inner, b CtxB) []InnerOut
}

// goverter:context a
func WithA(s Inner, a CtxA) InnerOut { return InnerOut{V: s.V + a.X} }

// goverter:context b
func WithB(s Inner, b CtxB) InnerOut { return InnerOut{V: s.V + b.Y} }
`}})
	// S2: helper names that collide on their base name across packages
	s2 := map[string]string{}
	for _, pk := range []string{"a", "b", "c", "d"} {
		s2[pk+"/model/model.go"] = "package model\n\ntype Item struct{ V int; Sub SubItem; L []SubItem }\ntype SubItem struct{ W string; Deep Deep }\ntype Deep struct{ Z int }\n"
	}
	s2["x/model/model.go"] = "package model\n\ntype Item struct{ V int; Sub SubItem; L []SubItem }\ntype SubItem struct{ W string; Deep Deep }\ntype Deep struct{ Z int }\n"
	s2["conv/input.go"] = `package conv

import (
	am "vcase/a/model"
	bm "vcase/b/model"
	cm "vcase/c/model"
	dm "vcase/d/model"
	xm "vcase/x/model"
)

// goverter:converter
type Converter interface {
	FromA(source am.Item) xm.Item
	FromB(source bm.Item) xm.Item
	FromC(source cm.Item) xm.Item
	FromD(source dm.Item) xm.Item
	ListA(source []am.Item) []xm.Item
	ListD(source []dm.Item) []xm.Item
}
`
	ps = append(ps, c09Prog{name: "helpers", pkgs: []string{"./conv"}, files: s2, note: "helper names collide on the base name across packages"})
	// S3: converters of several packages merged into one file
	ps = append(ps, c09Prog{name: "multi", pkgs: []string{"./k1", "./k2", "./k3"}, note: "several converters from several packages in one @cwd file",
		files: map[string]string{
			"types/t.go":  "package types\n\ntype In struct{ V int; N Nested }\ntype Nested struct{ S string }\ntype Out struct{ V int; N NestedOut }\ntype NestedOut struct{ S string }\n",
			"k1/input.go": "package k1\n\nimport \"vcase/types\"\n\n// goverter:converter\n// goverter:output:file @cwd/out/gen.go\n// goverter:output:package vcase/out\ntype Bravo interface {\n\tB(source types.In) types.Out\n}\n",
			"k2/input.go": "package k2\n\nimport \"vcase/types\"\n\n// goverter:converter\n// goverter:output:file @cwd/out/gen.go\n// goverter:output:package vcase/out\ntype Alpha interface {\n\tA(source types.In) types.Out\n}\n\n// goverter:converter\n// goverter:output:file @cwd/out/gen.go\n// goverter:output:package vcase/out\ntype Delta interface {\n\tD(source []types.In) []types.Out\n}\n",
			"k3/input.go": "package k3\n\nimport \"vcase/types\"\n\n// goverter:converter\n// goverter:output:file @cwd/out/gen.go\n// goverter:output:package vcase/out\ntype Charlie interface {\n\tC(source map[string]types.In) map[string]types.Out\n}\n",
		}})
	// S4: variables block with many functions
	ps = append(ps, c09Prog{name: "vars", pkgs: []string{"./p"}, note: "variables block with many functions sharing helpers",
		files: map[string]string{"p/input.go": `package p

type In struct{ V int; N Nested; L []Nested }
type Nested struct{ S string }
type Out struct{ V int; N NestedOut; L []NestedOut }
type NestedOut struct{ S string }

// goverter:variables
var (
	Zulu func(source In) Out
	Alpha func(source []In) []Out
	Mike func(source map[string]In) map[string]Out
	Echo func(source *In) *Out
	Kilo func(source Nested) NestedOut
	Bravo func(source [3]In) []Out
)
`}})
	// S5: enums with many members, map + transform
	ps = append(ps, c09Prog{name: "enums", pkgs: []string{"./p"}, note: "enum with many members, enum:map and enum:transform",
		files: map[string]string{"p/input.go": `package p

type Color int
const ( ColorRed Color = iota; ColorGreen; ColorBlue; ColorCyan; ColorMagenta; ColorYellow; ColorBlack; ColorWhite; ColorAlias = ColorWhite )
type Paint string
const ( PaintRed Paint = "r"; PaintGreen Paint = "g"; PaintBlue Paint = "b"; PaintCyan Paint = "c"; PaintMagenta Paint = "m"; PaintYellow Paint = "y"; PaintBlack Paint = "k"; PaintWhite Paint = "w"; PaintAlias Paint = "w" )
type In struct{ C Color; L []Color; M map[Color]Color }
type Out struct{ C Paint; L []Paint; M map[Paint]Paint }

// goverter:converter
// goverter:enum:unknown @error
type Converter interface {
	// goverter:enum:transform regex Color(\w+) Paint$1
	// goverter:enum:map ColorBlack @ignore
	ConvertColor(source Color) (Paint, error)
	Convert(source In) (Out, error)
}
`}})
	// S6: many converters with an equal sort key (variables blocks have no name): two packages x seven blocks
	mv := map[string]string{}
	for _, pk := range []string{"alpha", "beta"} {
		var sb strings.Builder
		sb.WriteString("package " + pk + "\n\ntype In struct{ V int; N Nested }\ntype Nested struct{ S string }\ntype Out struct{ V int; N NestedOut }\ntype NestedOut struct{ S string }\n\n")
		for k := 0; k < 7; k++ {
			fmt.Fprintf(&sb, "// goverter:variables\nvar (\n\tConvert%c func(source In) Out\n)\n\n", 'G'-k)
		}
		mv[pk+"/input.go"] = sb.String()
	}
	ps = append(ps, c09Prog{name: "manyvars", pkgs: []string{"./alpha", "./beta"}, files: mv, note: "fourteen variables blocks (equal names) in two packages"})
	// F1: several unknown fields in one ignore
	ps = append(ps, c09Prog{name: "f_ignore", pkgs: []string{"./p"}, fails: true, note: "ignore names several non-existent fields",
		files: map[string]string{"p/input.go": "package p\n\ntype In struct{ V int }\ntype Out struct{ V int }\n\n// goverter:converter\ntype Converter interface {\n\t// goverter:ignore Zeta Alpha Beta Gamma Delta Epsilon\n\tConvert(source In) Out\n}\n"}})
	// F2: several unknown enum:map keys
	ps = append(ps, c09Prog{name: "f_enumkeys", pkgs: []string{"./p"}, fails: true, note: "enum:map names several non-existent members",
		files: map[string]string{"p/input.go": "package p\n\ntype A int\nconst ( A1 A = iota; A2 )\ntype B int\nconst ( B1 B = iota; B2 )\n\n// goverter:converter\n// goverter:enum:unknown @ignore\ntype Converter interface {\n\t// goverter:enum:map A1 B1\n\t// goverter:enum:map A2 B2\n\t// goverter:enum:map Nope1 B1\n\t// goverter:enum:map Nope2 B1\n\t// goverter:enum:map Nope3 B1\n\t// goverter:enum:map Nope4 B1\n\tConvert(source A) B\n}\n"}})
	// F2b: several context names that do not exist
	ps = append(ps, c09Prog{name: "f_ctxnames", pkgs: []string{"./p"}, fails: true, note: "goverter:context names several parameters that do not exist",
		files: map[string]string{"p/input.go": "package p\n\ntype In struct{ V int }\ntype Out struct{ V int }\n\n// goverter:converter\ntype Converter interface {\n\t// goverter:context zeta\n\t// goverter:context mid\n\t// goverter:context alpha\n\t// goverter:context omega\n\t// goverter:context beta\n\tConvert(source In) Out\n}\n"}})
	// F3: variables block with several invalid functions
	ps = append(ps, c09Prog{name: "f_vars", pkgs: []string{"./p"}, fails: true, note: "variables block with several invalid signatures",
		files: map[string]string{"p/input.go": "package p\n\ntype In struct{ V int }\ntype Out struct{ V int }\n\n// goverter:variables\nvar (\n\tZulu func(a In, b In) Out\n\tAlpha func() Out\n\tMike func(source In) (Out, string)\n\tEcho func(source In)\n\tKilo func(a, b, c In) Out\n)\n"}})
	// F4: faults in several packages
	f4 := map[string]string{}
	for _, pk := range []string{"m1", "m2", "m3", "m4"} {
		f4[pk+"/input.go"] = "package " + pk + "\n\ntype In struct{ V int }\ntype Out struct{ V int; Missing" + strings.ToUpper(pk) + " string }\n\n// goverter:converter\ntype Converter interface {\n\tConvert(source In) Out\n}\n"
	}
	ps = append(ps, c09Prog{name: "f_pkgs", pkgs: []string{"./m1", "./m2", "./m3", "./m4"}, fails: true, files: f4, note: "identically named failing converters in four packages"})
	// F4b: faults found while the settings are parsed, in several packages
	f4b := map[string]string{}
	for _, pk := range []string{"q1", "q2", "q3"} {
		f4b[pk+"/input.go"] = "package " + pk + "\n\ntype In struct{ V int }\ntype Out struct{ V int }\n\n// goverter:converter\n// goverter:nonsense" + strings.ToUpper(pk) + " x\ntype Converter interface {\n\tConvert(source In) Out\n}\n"
	}
	ps = append(ps, c09Prog{name: "f_parse", pkgs: []string{"./q1", "./q2", "./q3"}, fails: true, files: f4b, note: "unknown settings on converters in three packages"})
	// F4b2: the same with three packages that share their NAME (different import paths)
	f4b2 := map[string]string{}
	for _, pk := range []string{"s1", "s2", "s3"} {
		f4b2[pk+"/conv/input.go"] = "package conv\n\ntype In struct{ V int }\ntype Out struct{ V int }\n\n// goverter:converter\n// goverter:nonsense" + strings.ToUpper(pk) + " x\ntype Converter interface {\n\tConvert(source In) Out\n}\n"
	}
	ps = append(ps, c09Prog{name: "f_parse_samename", pkgs: []string{"./s1/conv", "./s2/conv", "./s3/conv"}, fails: true, files: f4b2, note: "unknown settings on converters in three packages with one package name"})
	// F4c: two output files that cannot be rendered
	f4c := map[string]string{}
	for _, pk := range []string{"r1", "r2", "r3"} {
		f4c[pk+"/input.go"] = "package " + pk + "\n\ntype In struct{ V int }\ntype Out struct{ V int }\n\n// goverter:converter\n// goverter:output:raw func broken" + strings.ToUpper(pk) + "( {\ntype Converter interface {\n\tConvert(source In) Out\n}\n"
	}
	ps = append(ps, c09Prog{name: "f_render", pkgs: []string{"./r1", "./r2", "./r3"}, fails: true, files: f4c, note: "three output files that cannot be rendered"})
	// F4d: output locations that are occupied (a directory where the file should go), relative to the declaring file and to @cwd
	ps = append(ps, c09Prog{name: "f_outdir", pkgs: []string{"./p", "./q"}, fails: true, note: "output files whose location is a directory",
		files: map[string]string{
			"p/out/gen.go/keep.txt":  "occupied\n",
			"p/input.go":             "package p\n\ntype In struct{ V int }\ntype Out struct{ V int }\n\n// goverter:converter\n// goverter:output:file ./out/gen.go\ntype Converter interface {\n\tConvert(source In) Out\n}\n",
			"cwdout/gen.go/keep.txt": "occupied\n",
			"q/input.go":             "package q\n\ntype In struct{ V int }\ntype Out struct{ V int }\n\n// goverter:converter\n// goverter:output:file @cwd/cwdout/gen.go\ntype Converter interface {\n\tConvert(source In) Out\n}\n",
		}})
	ps = append(ps, c09Prog{name: "f_outdir_rel", pkgs: []string{"./p"}, fails: true, note: "relative output file whose location is a directory",
		files: map[string]string{
			"p/out/gen.go/keep.txt": "occupied\n",
			"p/input.go":            "package p\n\ntype In struct{ V int }\ntype Out struct{ V int }\n\n// goverter:converter\n// goverter:output:file ./out/gen.go\ntype Converter interface {\n\tConvert(source In) Out\n}\n",
		}})
	// S7: @cwd output into an existing package whose name differs from its directory
	ps = append(ps, c09Prog{name: "cwdexisting", pkgs: []string{"./p"}, note: "@cwd output file next to an existing package with another name",
		files: map[string]string{
			"output/existing.go": "package realname\n\nfunc Existing() int { return 1 }\n",
			"p/input.go":         "package p\n\ntype In struct{ V int }\ntype Out struct{ V int }\n\n// goverter:converter\n// goverter:output:file @cwd/output/gen.go\ntype Converter interface {\n\tConvert(source In) Out\n}\n",
		}})
	// S8: enum members that differ only in case
	ps = append(ps, c09Prog{name: "casefold", pkgs: []string{"./p"}, note: "enum members equal ignoring case",
		files: map[string]string{"p/input.go": "package p\n\ntype A int\n\nconst (\n\tOK A = iota\n\tOk\n\tID\n\tId\n\tURL\n\tUrl\n\tAPI\n\tApi\n\tIO\n\tIo\n\tDB\n\tDb\n\tUI\n\tUi\n)\n\ntype B int\n\nconst (\n\tBOK B = iota\n\tBOk\n\tBID\n\tBId\n\tBURL\n\tBUrl\n\tBAPI\n\tBApi\n\tBIO\n\tBIo\n\tBDB\n\tBDb\n\tBUI\n\tBUi\n)\n\n// goverter:converter\n// goverter:enum:unknown @ignore\ntype Converter interface {\n\t// goverter:enum:transform regex (.*) B$1\n\tConvert(source A) B\n\t// goverter:enum:transform regex B(.*) $1\n\tBack(source B) A\n}\n"}})
	// F5: failing call that needs several contexts (context debug lines)
	ps = append(ps, c09Prog{name: "f_ctx", pkgs: []string{"./p"}, fails: true, note: "custom function whose contexts are only partly available",
		files: map[string]string{"p/input.go": `package p

type In struct{ A Inner }
type Inner struct{ V int }
type Out struct{ A InnerOut }
type InnerOut struct{ V int }
type C1 struct{}
type C2 struct{}
type C3 struct{}
type C4 struct{}
type C5 struct{}

// goverter:converter
// goverter:extend With
type Converter interface {
	// goverter:context c1
	// goverter:context c5
	// goverter:context c3
	Convert(source In, c1 C1, c5 C5, c3 C3) Out
}

// goverter:context a
// goverter:context b
// goverter:context c
// goverter:context d
func With(s Inner, a C1, b C2, c C3, d C4) InnerOut { return InnerOut{} }
`}})
	// F6: several struct fields without a source
	ps = append(ps, c09Prog{name: "f_fields", pkgs: []string{"./p"}, fails: true, note: "several methods each failing",
		files: map[string]string{"p/input.go": "package p\n\ntype In struct{ V int }\ntype O1 struct{ V int; X1 int }\ntype O2 struct{ V int; X2 int }\ntype O3 struct{ V int; X3 int }\n\n// goverter:converter\ntype Converter interface {\n\tZulu(source In) O1\n\tAlpha(source In) O2\n\tMike(source In) O3\n}\n"}})
	return ps
}

// place writes a program as its own module below dir.
func (p *c09Prog) place(dir string) {
	os.MkdirAll(dir, 0o755)
	os.WriteFile(filepath.Join(dir, "go.mod"), []byte("module vcase\n\ngo 1.22\n"), 0o644)
	writeFiles(dir, p.files)
}

type c09Obs struct {
	label  string
	exit   int
	stderr string
	files  map[string]string
}

func (o c09Obs) diff(ref c09Obs) string {
	if o.exit != ref.exit {
		return fmt.Sprintf("exit %d vs %d", o.exit, ref.exit)
	}
	if o.stderr != ref.stderr {
		return "diagnostic differs:\n--- " + ref.label + "\n" + head(ref.stderr, 700) + "\n--- " + o.label + "\n" + head(o.stderr, 700)
	}
	if len(o.files) != len(ref.files) {
		return fmt.Sprintf("file sets differ: %v vs %v", keysOf(o.files), keysOf(ref.files))
	}
	for p, b := range ref.files {
		ob, ok := o.files[p]
		if !ok {
			return "missing file " + p
		}
		if ob != b {
			return "bytes of " + p + " differ:\n" + firstDiff(b, ob)
		}
	}
	return ""
}

func firstDiff(a, b string) string {
	la, lb := strings.Split(a, "\n"), strings.Split(b, "\n")
	for i := 0; i < len(la) && i < len(lb); i++ {
		if la[i] != lb[i] {
			return fmt.Sprintf("line %d:\n- %s\n+ %s", i+1, la[i], lb[i])
		}
	}
	return fmt.Sprintf("length %d vs %d lines", len(la), len(lb))
}

// C09: output is deterministic and independent of environment and previous runs.
func C09(e *core.Env) int {
	rep := core.NewReport(e, "exploration")
	rep.Rule = "programs with several candidates for every map-ordered decision (methods with one signature and different contexts, helper names colliding across packages, converters of several packages merged into one file, a variables block with many functions, enums with many members; failing inputs with several simultaneous faults of one stage: unknown ignore fields, unknown enum:map keys, invalid variables, failing converters in several packages, partly available contexts) are each generated in a fresh tree by a fresh process (reference) and again: k more fresh processes, permuted / duplicated / wildcard package patterns, -cwd instead of chdir, GOMAXPROCS=1, a relocated copy at a path of different length containing a space, the in-process public API, and a second run on top of the first run's output; exit status, diagnostic (module root replaced by @ROOT) and every written byte must equal the reference; non-trivial = comparison of a complete observation against the reference; distinct = (program, variation)"
	rep.Assumptions = []string{"Go randomises map iteration per process: an order dependence between two candidates survives k repeats with probability 2^-(k-1)", "paths in diagnostics are compared after replacing the module root"}
	rep.Floor = tierN(e, 40, 200)
	bin, err := e.BuildCLI("plain")
	if err != nil {
		rep.Inconclusive = append(rep.Inconclusive, err.Error())
		return rep.Finish()
	}
	helper, err := e.BuildHelper("inproc")
	if err != nil {
		rep.Inconclusive = append(rep.Inconclusive, err.Error())
		return rep.Finish()
	}
	root := filepath.Join(e.Scratch, "c09")
	k := tierN(e, 7, 24)
	progs := c09Programs()
	// seeded generated programs (several converters, helpers, custom functions, enums) on top of the fixed ones
	{
		ng := tierN(e, 6, 40)
		gr := rand.New(rand.NewSource(e.Seed*2971 + 9))
		for i := 0; i < ng; i++ {
			var c *pgen.Case
			name := fmt.Sprintf("g%03d", i)
			sub := rand.New(rand.NewSource(gr.Int63()))
			switch i % 3 {
			case 0:
				c = pgen.Structural(sub, name, pgen.StructOpts{Format: formats[i%3], NMethods: 3, NConverters: 3, Depth: 3, Seed: int64(i)})
			case 1:
				c = pgen.CustomCase(sub, name, pgen.CustomOpts{Format: formats[(i/3)%3], Seed: int64(i), WrapMode: "wrapErrors", WrapLevel: "conv", Fallible: true})
			default:
				c, _ = pgen.EnumCase(sub, name, pgen.EnumOpts{Format: formats[(i/3)%3], Seed: int64(i)})
			}
			files := map[string]string{}
			for p, b := range c.Files() {
				files[name+"/"+p] = b
			}
			if len(c.Args) > 0 {
				continue // keep the canonical argv simple: programs whose settings live in the sources only
			}
			progs = append(progs, c09Prog{name: "gen_" + name, files: files, pkgs: c.Patterns, sub: name, anyExit: true, note: "generated program: " + featureString(c)})
		}
	}
	type job struct {
		prog  int
		label string
		run   func(dir string) c09Obs
		dirFn func(base string) string
	}
	obsCLI := func(dir, procDir string, args []string, env []string, label string) c09Obs {
		gr := runGen(e, bin, dir, procDir, args, env)
		return c09Obs{label: label, exit: gr.Exit, stderr: gr.Stderr, files: gr.Files}
	}
	var jobs []job
	for pi := range progs {
		p := &progs[pi]
		canon := append([]string{"gen"}, p.pkgs...)
		add := func(label string, run func(dir string) c09Obs) {
			jobs = append(jobs, job{prog: pi, label: label, run: run})
		}
		wd := func(dir string) string { return filepath.Join(dir, p.sub) }
		add("reference", func(dir string) c09Obs { return obsCLI(dir, wd(dir), canon, nil, "reference") })
		for r := 0; r < k; r++ {
			lbl := fmt.Sprintf("repeat%d", r)
			add(lbl, func(dir string) c09Obs { return obsCLI(dir, wd(dir), canon, nil, lbl) })
		}
		// permutations / duplicates / wildcard
		rev := append([]string{}, p.pkgs...)
		sort.Sort(sort.Reverse(sort.StringSlice(rev)))
		add("reversed", func(dir string) c09Obs {
			return obsCLI(dir, wd(dir), append([]string{"gen"}, rev...), nil, "reversed patterns")
		})
		dup := append(append([]string{}, rev...), p.pkgs...)
		add("duplicated", func(dir string) c09Obs {
			return obsCLI(dir, wd(dir), append([]string{"gen"}, dup...), nil, "duplicated patterns")
		})
		add("wildcard", func(dir string) c09Obs { return obsCLI(dir, wd(dir), []string{"gen", "./..."}, nil, "./...") })
		add("overlap", func(dir string) c09Obs {
			return obsCLI(dir, wd(dir), append([]string{"gen", "./..."}, p.pkgs...), nil, "./... plus explicit")
		})
		add("cwdflag", func(dir string) c09Obs {
			return obsCLI(dir, e.Scratch, append([]string{"gen", "-cwd", wd(dir)}, p.pkgs...), nil, "-cwd")
		})
		add("gomaxprocs1", func(dir string) c09Obs { return obsCLI(dir, wd(dir), canon, []string{"GOMAXPROCS=1"}, "GOMAXPROCS=1") })
		add("relocated", func(dir string) c09Obs { return obsCLI(dir, wd(dir), canon, nil, "relocated copy") })
		add("inprocess", func(dir string) c09Obs {
			outs, _ := runInproc(e, helper, map[string]any{"dir": wd(dir), "patterns": p.pkgs, "buildTags": "goverter", "constraint": "!goverter", "variants": []inprocVariant{{Name: "v"}}, "mode": "together"}, 2*time.Minute)
			o := c09Obs{label: "in-process API", files: map[string]string{}}
			for _, x := range outs {
				if x.Panic != "" {
					o.exit, o.stderr = 2, x.Panic
				} else if !x.OK {
					o.exit = 1
					o.stderr = strings.ReplaceAll(x.Err, dir, "@ROOT") + "\n"
				}
				for fp, b := range x.Files {
					rel, _ := filepath.Rel(dir, fp)
					o.files[rel] = b
				}
			}
			return o
		})
		add("stale", func(dir string) c09Obs {
			first := obsCLI(dir, wd(dir), canon, nil, "first")
			if first.exit != 0 {
				return obsCLI(dir, wd(dir), canon, nil, "regeneration over a stale previous output")
			}
			// make every previous output longer and outdated, one of them syntactically broken after the header lines
			k := 0
			for fp, b := range first.files {
				full := filepath.Join(dir, fp)
				if k%2 == 0 {
					os.WriteFile(full, []byte(b+strings.Repeat("// stale tail from an older, longer output\nvar _ = 1\n", 30)), 0o644)
				} else {
					lines := strings.SplitAfter(b, "\n")
					os.WriteFile(full, []byte(strings.Join(lines[:2], "")+"\npackage broken {{{ not go\n"+strings.Repeat("x", len(b))), 0o644)
				}
				k++
			}
			second := obsCLI(dir, wd(dir), canon, nil, "regeneration over a stale previous output")
			if second.exit == 0 {
				now := snapshotFiles(dir)
				second.files = map[string]string{}
				for fp := range first.files {
					second.files[fp] = now[fp]
				}
			}
			return second
		})
		add("samesize", func(dir string) c09Obs {
			// previous output of exactly the same length, but other (still loadable) content
			first := obsCLI(dir, wd(dir), canon, nil, "first")
			if first.exit != 0 {
				return obsCLI(dir, wd(dir), canon, nil, "regeneration over an equally long previous output")
			}
			for fp, b := range first.files {
				full := filepath.Join(dir, fp)
				idx := strings.Index(b, "DO NOT EDIT")
				mod := b
				if idx >= 0 {
					mod = b[:idx] + "do not edit" + b[idx+len("DO NOT EDIT"):]
				}
				os.WriteFile(full, []byte(mod), 0o644)
			}
			second := obsCLI(dir, wd(dir), canon, nil, "regeneration over an equally long previous output")
			if second.exit == 0 {
				now := snapshotFiles(dir)
				second.files = map[string]string{}
				for fp := range first.files {
					second.files[fp] = now[fp]
				}
			}
			return second
		})
		add("regenerate", func(dir string) c09Obs {
			first := obsCLI(dir, wd(dir), canon, nil, "first")
			second := obsCLI(dir, wd(dir), canon, nil, "regeneration over own output")
			if second.exit == 0 {
				// a second run rewrites identical bytes: the diff-based file set is empty, so take the tree
				second.files = first.files
				now := snapshotFiles(dir)
				for fp := range first.files {
					second.files[fp] = now[fp]
				}
			}
			return second
		})
	}
	obs := make([]c09Obs, len(jobs))
	core.Parallel(len(jobs), func(i int) {
		j := jobs[i]
		p := &progs[j.prog]
		dir := filepath.Join(root, p.name, j.label)
		if j.label == "relocated" {
			dir = filepath.Join(e.Scratch, "relocated dir with a space and a much longer name", p.name)
		}
		p.place(dir)
		obs[i] = j.run(dir)
	})
	refs := map[int]c09Obs{}
	for i, j := range jobs {
		if j.label == "reference" {
			refs[j.prog] = obs[i]
		}
	}
	for i, j := range jobs {
		rep.Evaluations++
		p := &progs[j.prog]
		ref := refs[j.prog]
		if j.label == "reference" {
			if p.anyExit {
				// generated program: whatever the reference does is the reference
			} else if p.fails && ref.exit != 1 {
				rep.Violation(&core.Viol{Kind: "expected_failure", Case: p.name, Summary: fmt.Sprintf("program %s should fail, exit %d", p.name, ref.exit), Detail: ref.stderr})
			}
			if !p.anyExit && !p.fails && ref.exit != 0 {
				rep.Violation(&core.Viol{Kind: "expected_success", Case: p.name, Summary: fmt.Sprintf("program %s should generate, exit %d: %s", p.name, ref.exit, firstLine(ref.stderr)), Detail: ref.stderr})
			}
			if len(rep.Samples) < 5 {
				rep.Sample(map[string]any{"program": p.name, "note": p.note, "patterns": p.pkgs, "exit": ref.exit, "files": keysOf(ref.files), "diagnostic_head": head(ref.stderr, 160)})
			}
			continue
		}
		o := obs[i]
		if j.label == "inprocess" && o.exit == 1 && ref.exit == 1 {
			// the CLI prints the error with a trailing newline; compare trimmed
			o.stderr, ref.stderr = strings.TrimSpace(o.stderr), strings.TrimSpace(ref.stderr)
		}
		if d := o.diff(ref); d != "" {
			kind := "nondeterministic"
			if !strings.HasPrefix(j.label, "repeat") {
				kind = "depends_on_" + j.label
			}
			what := "output"
			if ref.exit != 0 {
				what = "diagnostic"
			}
			rep.Violation(&core.Viol{Kind: kind, Case: p.name, Summary: fmt.Sprintf("%s of program %q differs between the reference run and %s", what, p.name, variationClass(j.label)), Detail: p.note + "\n" + d,
				Tags: []string{"prog:" + p.name, "var:" + variationClass(j.label)}, Dir: filepath.Join(root, p.name, j.label)})
		}
		rep.NonTrivial(p.name + "|" + j.label)
		rep.Set("variations", variationClass(j.label))
	}
	rep.Extra["repeats_per_program"] = k
	rep.Extra["programs"] = len(progs)
	return rep.Finish()
}

func variationClass(l string) string {
	if strings.HasPrefix(l, "repeat") {
		return "a repeated fresh-process run"
	}
	return l
}

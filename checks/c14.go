package checks

import (
	"fmt"
	"math/rand"
	"os"
	"path/filepath"
	"strings"

	"verif/internal/core"
	"verif/internal/pgen"
)

func init() { Registry["C14"] = C14 }

type c14Shape struct {
	use     string   // iface | vars | extend | map | default | structmethod
	named   bool     // parameters are named
	roles   []string // S B C R U I
	results string   // "", T, "T,error", error, "T,string", "T,T,error", string
	accept  bool
	why     string
	regexAt string // where arg:context:regex is written for shapes with R: conv | meth
	// variadic: the last parameter (a context) is declared as ...T; the implementation must keep the declared signature
	variadic bool
}

func (s c14Shape) key() string {
	k := fmt.Sprintf("%s|named=%v|%s|%s|regex@%s", s.use, s.named, strings.Join(s.roles, ""), s.results, s.regexAt)
	if s.variadic {
		k += "|variadic"
	}
	return k
}

func countRole(roles []string, set string) int {
	n := 0
	for _, r := range roles {
		if strings.Contains(set, r) {
			n++
		}
	}
	return n
}

// model: the documented role classification (docs/reference/signature.md)
func c14Model(s *c14Shape) {
	sources := countRole(s.roles, "SB")
	hasU := countRole(s.roles, "U") > 0
	okRes := func(list ...string) bool {
		for _, l := range list {
			if s.results == l {
				return true
			}
		}
		return false
	}
	switch s.use {
	case "iface", "vars":
		switch {
		case sources != 1:
			s.accept, s.why = false, fmt.Sprintf("%d sources", sources)
		case hasU && !okRes("", "error"):
			s.accept, s.why = false, "update method with results"
		case !hasU && !okRes("T", "T,error"):
			s.accept, s.why = false, "results"
		default:
			s.accept = true
		}
	case "extend", "extendrx":
		// the first result is the target: `func(KA) error` is a valid (here unused) function converting KA to error
		s.accept = sources == 1 && okRes("T", "T,error", "error")
	case "extendlate":
		// the regex is written AFTER the extend line: settings apply in source order, so a parameter that only the
		// later regex matches is an ordinary source for this function
		s.accept = countRole(s.roles, "SBR") == 1 && okRes("T", "T,error", "error")
	case "map", "default":
		// optional source; a single source must be the mapped field's / method's source type (role S)
		s.accept = sources <= 1 && countRole(s.roles, "B") == 0 && okRes("T", "T,error")
	case "structmethod":
		s.accept = okRes("T", "T,error")
	}
}

func c14Shapes(use string, roleSet []string, resultSet []string, maxParams int, namedVariants bool) []c14Shape {
	var out []c14Shape
	var rec func(cur []string)
	rec = func(cur []string) {
		if countRole(cur, "U") <= 1 && countRole(cur, "I") <= 1 {
			for _, res := range resultSet {
				for _, named := range []bool{true, false} {
					if !named && (!namedVariants || (countRole(cur, "CRU") > 0 && use != "structmethod")) {
						continue // contexts / update ARG need parameter names
					}
					s := c14Shape{use: use, named: named, roles: append([]string{}, cur...), results: res, regexAt: "conv"}
					c14Model(&s)
					out = append(out, s)
					if countRole(cur, "R") > 0 && use != "extend" && use != "extendrx" && use != "extendlate" && use != "structmethod" {
						s2 := s
						s2.roles = append([]string{}, cur...)
						s2.regexAt = "meth"
						out = append(out, s2)
					}
				}
			}
		}
		if len(cur) >= maxParams {
			return
		}
		for _, r := range roleSet {
			rec(append(cur, r))
		}
	}
	rec(nil)
	return out
}

func resText(res, target string) string {
	r := strings.ReplaceAll(res, "T", target)
	switch {
	case r == "":
		return ""
	case strings.Contains(r, ","):
		return " (" + strings.ReplaceAll(r, ",", ", ") + ")"
	}
	return " " + r
}

// c14MethodCase renders a converter-method / function-variable shape with its routing glue.
func c14MethodCase(name string, s c14Shape) *pgen.Case {
	var sb strings.Builder
	sb.WriteString("package p\n\nimport \"fmt\"\n\nvar _ = fmt.Sprint\n\n")
	sb.WriteString("type A struct{ V int }\ntype B struct{ V int }\ntype T struct{ V int; X0, X1, X2 string }\n")
	var params, mlines, callArgs, setup, expect []string
	srcVar := ""
	for i, r := range s.roles {
		switch r {
		case "S":
			params = append(params, pname(s.named, fmt.Sprintf("src%d", i))+"A")
			setup = append(setup, fmt.Sprintf("a%d := p.A{V: %d}", i, 40+i))
			callArgs = append(callArgs, fmt.Sprintf("a%d", i))
			srcVar = fmt.Sprintf("a%d", i)
		case "B":
			params = append(params, pname(s.named, fmt.Sprintf("other%d", i))+"B")
			setup = append(setup, fmt.Sprintf("a%d := p.B{V: %d}", i, 40+i))
			callArgs = append(callArgs, fmt.Sprintf("a%d", i))
			srcVar = fmt.Sprintf("a%d", i)
		case "C":
			if s.variadic && i == len(s.roles)-1 {
				fmt.Fprintf(&sb, "type CtxP%d struct{ ID string }\n// goverter:context c\nfunc F%d(v int, c []CtxP%d) string { return fmt.Sprintf(\"%%d/%%s\", v, c[0].ID) }\n", i, i, i)
				params = append(params, fmt.Sprintf("cx%d ...CtxP%d", i, i))
			} else {
				fmt.Fprintf(&sb, "type CtxP%d struct{ ID string }\n// goverter:context c\nfunc F%d(v int, c CtxP%d) string { return fmt.Sprintf(\"%%d/%%s\", v, c.ID) }\n", i, i, i)
				params = append(params, fmt.Sprintf("cx%d CtxP%d", i, i))
			}
			mlines = append(mlines, fmt.Sprintf("context cx%d", i), fmt.Sprintf("map V X%d | F%d", i, i))
			setup = append(setup, fmt.Sprintf("a%d := p.CtxP%d{ID: \"ctx%d\"}", i, i, i))
			callArgs = append(callArgs, fmt.Sprintf("a%d", i))
			expect = append(expect, fmt.Sprintf("out.X%d == fmt.Sprintf(\"%%d/ctx%d\", SRC.V)", i, i))
		case "R":
			if s.variadic && i == len(s.roles)-1 {
				fmt.Fprintf(&sb, "type RxP%d struct{ ID string }\nfunc F%d(v int, rxc []RxP%d) string { return fmt.Sprintf(\"%%d/%%s\", v, rxc[0].ID) }\n", i, i, i)
				params = append(params, fmt.Sprintf("rx%d ...RxP%d", i, i))
			} else {
				fmt.Fprintf(&sb, "type RxP%d struct{ ID string }\nfunc F%d(v int, rxc RxP%d) string { return fmt.Sprintf(\"%%d/%%s\", v, rxc.ID) }\n", i, i, i)
				params = append(params, fmt.Sprintf("rx%d RxP%d", i, i))
			}
			mlines = append(mlines, fmt.Sprintf("map V X%d | F%d", i, i))
			setup = append(setup, fmt.Sprintf("a%d := p.RxP%d{ID: \"rx%d\"}", i, i, i))
			callArgs = append(callArgs, fmt.Sprintf("a%d", i))
			expect = append(expect, fmt.Sprintf("out.X%d == fmt.Sprintf(\"%%d/rx%d\", SRC.V)", i, i))
		case "U":
			params = append(params, "target *T")
			mlines = append(mlines, "update target")
			setup = append(setup, "var tgt p.T")
			callArgs = append(callArgs, "&tgt")
		}
	}
	for j := 0; j < 3; j++ {
		used := j < len(s.roles) && (s.roles[j] == "C" || s.roles[j] == "R")
		if !used {
			mlines = append(mlines, fmt.Sprintf("ignore X%d", j))
		}
	}
	sig := "(" + strings.Join(params, ", ") + ")" + resText(s.results, "T")
	convRegex := "// goverter:arg:context:regex ^rx\n"
	if s.regexAt == "meth" {
		convRegex = "// goverter:arg:context:regex ^zzz\n"
		// settings apply in source order: the regex must precede the map lines that rely on it
		mlines = append([]string{"arg:context:regex ^rx"}, mlines...)
	}
	if s.use == "vars" {
		sb.WriteString("\n// goverter:variables\n" + convRegex + "var (\n")
		for _, l := range mlines {
			sb.WriteString("\t// goverter:" + l + "\n")
		}
		sb.WriteString("\tM func" + sig + "\n)\n")
	} else {
		sb.WriteString("\n// goverter:converter\n" + convRegex + "type Conv interface {\n")
		for _, l := range mlines {
			sb.WriteString("\t// goverter:" + l + "\n")
		}
		sb.WriteString("\tM" + sig + "\n}\n")
	}
	c := pgen.RawCase(name, map[string]string{"p/input.go": sb.String()}, nil, []string{"./p"})
	c.Note = s.key()
	if !s.accept {
		return c
	}
	// glue: call with distinct values and check the routing
	hasU := countRole(s.roles, "U") > 0
	var g strings.Builder
	fmt.Fprintf(&g, "package gluex\n\nimport (\n\t\"fmt\"\n\t\"vcase/vref\"\n\tp \"vcase/%s/p\"\n", name)
	call := "p.M"
	if s.use == "iface" {
		fmt.Fprintf(&g, "\tgen \"vcase/%s/p/generated\"\n", name)
		call = "impl.M"
	}
	g.WriteString(")\n\nvar _ = fmt.Sprint\n\nfunc Run(o *vref.Out) {\n")
	fmt.Fprintf(&g, "\to.Try(%q, \"M\", func() {\n", name)
	if s.use == "iface" {
		g.WriteString("\t\timpl := &gen.ConvImpl{}\n\t\tvar _ p.Conv = impl\n")
	}
	for _, l := range setup {
		g.WriteString("\t\t" + l + "\n")
	}
	args := strings.Join(callArgs, ", ")
	switch {
	case hasU && s.results == "error":
		fmt.Fprintf(&g, "\t\tif err := %s(%s); err != nil {\n\t\t\to.Check(%q, \"M\", false, \"unexpected_error\", err.Error())\n\t\t\treturn\n\t\t}\n\t\tout := tgt\n", call, args, name)
	case hasU:
		fmt.Fprintf(&g, "\t\t%s(%s)\n\t\tout := tgt\n", call, args)
	case s.results == "T,error":
		fmt.Fprintf(&g, "\t\tout, err := %s(%s)\n\t\tif err != nil {\n\t\t\to.Check(%q, \"M\", false, \"unexpected_error\", err.Error())\n\t\t\treturn\n\t\t}\n", call, args, name)
	default:
		fmt.Fprintf(&g, "\t\tout := %s(%s)\n", call, args)
	}
	conds := []string{"out.V == " + srcVar + ".V"}
	for _, ex := range expect {
		conds = append(conds, strings.ReplaceAll(ex, "SRC", srcVar))
	}
	fmt.Fprintf(&g, "\t\tok := %s\n", strings.Join(conds, " && "))
	fmt.Fprintf(&g, "\t\to.Check(%q, \"M\", ok, \"routing\", fmt.Sprintf(\"result %%+v for source %%+v\", out, %s))\n\t})\n}\n", name, srcVar)
	c.PostFiles = map[string]string{"gluex/glue.go": g.String()}
	c.GluePkgs = []string{"gluex"}
	return c
}

func pname(named bool, n string) string {
	if named {
		return n + " "
	}
	return ""
}

// c14FuncCase renders a custom-function shape (extend, map|FUNC, default, struct method) inside a fixed outer method.
func c14FuncCase(name string, s c14Shape) *pgen.Case {
	var sb strings.Builder
	sb.WriteString("package p\n\n")
	sb.WriteString("type A struct{ V int; K KA }\ntype KA struct{ N int }\ntype KB struct{ N int }\ntype T struct{ V int; K KT }\ntype KT struct{ N int }\n")
	sb.WriteString("type CtxQ0 struct{ W int }\ntype CtxQ1 struct{ W int }\ntype CtxQ2 struct{ W int }\ntype RxQ struct{ W int }\n\n")
	srcT, tgtT := "KA", "KT"
	if s.use == "default" {
		srcT, tgtT = "A", "T"
	}
	var params, docs, sum []string
	base := "1000"
	for i, r := range s.roles {
		switch r {
		case "S":
			params = append(params, pname(s.named, fmt.Sprintf("in%d", i))+srcT)
			if s.use == "default" {
				base = fmt.Sprintf("2000 + in%d.V", i)
			} else {
				base = fmt.Sprintf("1000 + in%d.N", i)
			}
		case "B":
			params = append(params, pname(s.named, fmt.Sprintf("ob%d", i))+"KB")
		case "C":
			if s.use == "structmethod" && !s.named {
				// every parameter of a source method is a context, named or not
				params = append(params, fmt.Sprintf("CtxQ%d", i))
				break
			}
			params = append(params, fmt.Sprintf("c%d CtxQ%d", i, i))
			docs = append(docs, fmt.Sprintf("// goverter:context c%d", i))
			sum = append(sum, fmt.Sprintf("c%d.W", i))
		case "R":
			params = append(params, fmt.Sprintf("rx%d RxQ", i))
			sum = append(sum, fmt.Sprintf("rx%d.W", i))
		case "I":
			params = append(params, pname(s.named, fmt.Sprintf("cv%d", i))+"Conv")
		}
	}
	val := base
	if len(sum) > 0 {
		val += " + " + strings.Join(sum, " + ")
	}
	if !s.named {
		val = "1000"
	}
	body := ""
	switch s.results {
	case "T":
		if tgtT == "T" {
			body = "return T{K: KT{N: " + val + "}}"
		} else {
			body = "return KT{N: " + val + "}"
		}
	case "T,error":
		if tgtT == "T" {
			body = "return T{K: KT{N: " + val + "}}, nil"
		} else {
			body = "return KT{N: " + val + "}, nil"
		}
	case "":
		body = ""
	case "T,string":
		body = "return " + tgtT + "{}, \"\""
	case "error":
		body = "return nil"
	case "string":
		body = "return \"\""
	}
	sig := "(" + strings.Join(params, ", ") + ")" + resText(s.results, tgtT)
	// a second, unrelated custom function in the same file whose context is NAMED like the first parameter of Fn:
	// goverter:context lines belong to the function they are attached to
	if s.named && len(s.roles) > 0 && s.use != "structmethod" {
		first := strings.Fields(params[0])[0]
		fmt.Fprintf(&sb, "// goverter:context %s\nfunc Unrelated(x KB, %s CtxQ2) KB { return x }\n\n", first, first)
	}
	var conv, meth []string
	if s.regexAt == "meth" {
		conv = append(conv, "arg:context:regex ^zzz")
		meth = append(meth, "arg:context:regex ^rx")
	} else {
		conv = append(conv, "arg:context:regex ^rx")
	}
	switch s.use {
	case "extend":
		sb.WriteString(strings.Join(docs, "\n") + "\nfunc Fn" + sig + " { " + body + " }\n")
		conv = append(conv, "extend Fn")
	case "extendlate":
		sb.WriteString(strings.Join(docs, "\n") + "\nfunc Fn" + sig + " { " + body + " }\n")
		conv = []string{"extend Fn", "arg:context:regex ^rx"}
	case "extendrx":
		// selected by a regular expression: the function-level goverter:context lines must still be found
		sb.WriteString(strings.Join(docs, "\n") + "\nfunc Fn" + sig + " { " + body + " }\n")
		conv = append(conv, "extend Fn.*")
	case "map":
		sb.WriteString(strings.Join(docs, "\n") + "\nfunc Fn" + sig + " { " + body + " }\n")
		meth = append(meth, "map K K | Fn")
	case "default":
		sb.WriteString(strings.Join(docs, "\n") + "\nfunc Fn" + sig + " { " + body + " }\n")
		meth = append(meth, "default Fn", "ignore K")
	case "structmethod":
		sb.WriteString("func (a A) Calc" + sig + " { " + body + " }\n")
		meth = append(meth, "map Calc K")
	}
	sb.WriteString("\n// goverter:converter\n")
	for _, l := range conv {
		sb.WriteString("// goverter:" + l + "\n")
	}
	sb.WriteString("type Conv interface {\n\t// goverter:context q0\n\t// goverter:context q1\n\t// goverter:context q2\n")
	for _, l := range meth {
		sb.WriteString("\t// goverter:" + l + "\n")
	}
	sb.WriteString("\tM(source A, q0 CtxQ0, q1 CtxQ1, q2 CtxQ2, rxq RxQ) (T, error)\n}\n")
	c := pgen.RawCase(name, map[string]string{"p/input.go": sb.String()}, nil, []string{"./p"})
	c.Note = s.key()
	if !s.accept {
		return c
	}
	// expected K.N
	exp := "5" // automatic conversion of K (N: 5)
	usesFn := true
	if (s.use == "extend" || s.use == "extendrx" || s.use == "extendlate") && (countRole(s.roles, "S") == 0 || s.results == "error") {
		usesFn = false // an extend function for another pair is valid but unused
	}
	if usesFn {
		b := 1000
		if countRole(s.roles, "S") > 0 {
			if s.use == "default" {
				b = 2000 + 7
			} else {
				b = 1000 + 5
			}
		}
		if !s.named {
			b = 1000
		}
		for i, r := range s.roles {
			if !s.named {
				break
			}
			switch r {
			case "C":
				b += []int{10, 200, 3000}[i]
			case "R":
				b += 40000
			}
		}
		exp = fmt.Sprint(b)
	}
	var g strings.Builder
	fmt.Fprintf(&g, "package gluex\n\nimport (\n\t\"fmt\"\n\t\"vcase/vref\"\n\tp \"vcase/%s/p\"\n\tgen \"vcase/%s/p/generated\"\n)\n\nfunc Run(o *vref.Out) {\n", name, name)
	fmt.Fprintf(&g, "\to.Try(%q, \"M\", func() {\n\t\timpl := &gen.ConvImpl{}\n\t\tvar _ p.Conv = impl\n", name)
	g.WriteString("\t\tout, err := impl.M(p.A{V: 7, K: p.KA{N: 5}}, p.CtxQ0{W: 10}, p.CtxQ1{W: 200}, p.CtxQ2{W: 3000}, p.RxQ{W: 40000})\n")
	fmt.Fprintf(&g, "\t\tif err != nil {\n\t\t\to.Check(%q, \"M\", false, \"unexpected_error\", err.Error())\n\t\t\treturn\n\t\t}\n", name)
	vexp := "out.V == 7"
	if s.use == "default" {
		vexp = "out.V == 7" // V is mapped on top of the constructor value
	}
	fmt.Fprintf(&g, "\t\to.Check(%q, \"M\", %s && out.K.N == %s, \"routing\", fmt.Sprintf(\"result %%+v, want K.N == %s\", out))\n\t})\n}\n", name, vexp, exp, exp)
	c.PostFiles = map[string]string{"gluex/glue.go": g.String()}
	c.GluePkgs = []string{"gluex"}
	return c
}

// C14: parameters/results are classified by role; invalid signatures are rejected.
func C14(e *core.Env) int {
	rep := core.NewReport(e, "exploration")
	rep.Rule = "signature shapes are enumerated: converter methods and function variables with 0-3 parameters over the roles {source A, second source B, declared context, regex context, update target} x results {none, T, (T,error), error, (T,string), (T,T,error), string} x named/unnamed parameters; extend, map|FUNC and default functions with 0-3 parameters over {source, other-typed source, declared context, regex context, converter interface} and struct-method sources with 0-2 context parameters, x results; each shape is one real CLI run whose outcome must equal the role-classification model (docs/reference/signature.md); every accepted shape is compiled against the declared interface / variable type and executed with distinct argument values: each context value must arrive at the custom function of its type (folded into the result) and the source must be what is converted; non-trivial = shape whose outcome was compared; distinct = shape"
	rep.Assumptions = []string{"classification model written from docs/reference/signature.md", "every context parameter has its own type (duplicate context types are a separate documented error)"}
	rep.Floor = tierN(e, 150, 1500)
	methodRes := []string{"", "T", "T,error", "error", "T,string", "T,T,error", "string"}
	var shapes []c14Shape
	shapes = append(shapes, c14Shapes("iface", []string{"S", "B", "C", "R", "U"}, methodRes, 3, true)...)
	shapes = append(shapes, c14Shapes("vars", []string{"S", "B", "C", "R", "U"}, methodRes, 3, true)...)
	funcRes := []string{"", "T", "T,error", "T,string", "error"}
	for _, use := range []string{"extend", "map", "default"} {
		shapes = append(shapes, c14Shapes(use, []string{"S", "B", "C", "R", "I"}, funcRes, 3, true)...)
	}
	shapes = append(shapes, c14Shapes("extendrx", []string{"S", "C", "R"}, []string{"T", "T,error"}, 3, false)...)
	shapes = append(shapes, c14Shapes("structmethod", []string{"C"}, funcRes, 2, true)...)
	shapes = append(shapes, c14Shapes("extendlate", []string{"S", "R", "C"}, []string{"T", "T,error"}, 2, false)...)
	// variadic last parameter in a context role (accepted method shapes only)
	for _, s := range append([]c14Shape{}, shapes...) {
		if (s.use == "iface" || s.use == "vars") && s.accept && s.named && len(s.roles) > 0 && strings.Contains("CR", s.roles[len(s.roles)-1]) {
			v := s
			v.roles = append([]string{}, s.roles...)
			v.variadic = true
			shapes = append(shapes, v)
		}
	}
	total := len(shapes)
	if e.Tier != "thorough" {
		// quick: seeded sample that keeps every accepted shape with probability 1/2 and rejected ones with 1/5
		r := rand.New(rand.NewSource(e.Seed*31 + 14))
		var sel []c14Shape
		for _, s := range shapes {
			small := s.use == "structmethod" || s.use == "extendrx" || s.use == "extendlate" || s.variadic // small families are always complete
			if small || (s.accept && r.Intn(2) == 0) || (!s.accept && r.Intn(6) == 0) {
				sel = append(sel, s)
			}
		}
		shapes = sel
	} else {
		rep.Exhaustive = true
	}
	rep.Extra["shapes_total"] = total
	var cases []*pgen.Case
	byName := map[string]c14Shape{}
	for i, s := range shapes {
		name := fmt.Sprintf("g%05d", i)
		byName[name] = s
		if s.use == "iface" || s.use == "vars" {
			cases = append(cases, c14MethodCase(name, s))
		} else {
			cases = append(cases, c14FuncCase(name, s))
		}
	}
	p, err := runPipelineOpts(e, "c14", cases, pipeOpts{Execute: true})
	if err != nil {
		rep.Inconclusive = append(rep.Inconclusive, err.Error())
		return rep.Finish()
	}
	if len(p.Dropped) > 0 {
		rep.Extra["inputs_dropped_not_compiling"] = len(p.Dropped)
		rep.Extra["inputs_dropped_examples"] = p.Dropped[:min(5, len(p.Dropped))]
	}
	for _, cr := range p.Mod.Cases {
		s := byName[cr.Case.Name]
		rep.Evaluations++
		tags := []string{"use:" + s.use}
		det := fmt.Sprintf("shape %s model accept=%v (%s)\nexit=%d stderr=%s", s.key(), s.accept, s.why, cr.Gen.Exit, head(cr.Gen.Stderr, 1000))
		rep.Set("uses", s.use)
		if cr.Gen.Exit != 0 && cr.Gen.Exit != 1 {
			rep.Violation(&core.Viol{Kind: "crash", Case: cr.Case.Name, Summary: "goverter crashed on signature shape " + s.key(), Detail: det, Dir: cr.Dir, Tags: tags})
			continue
		}
		got := cr.Gen.Exit == 0
		if got != s.accept {
			kind := "invalid_signature_accepted"
			if s.accept {
				kind = "valid_signature_rejected"
			}
			rep.Violation(&core.Viol{Kind: kind, Case: cr.Case.Name, Summary: fmt.Sprintf("%s: shape %s: model says accept=%v, goverter exit %d (%s)", kind, s.key(), s.accept, cr.Gen.Exit, core.Classify(cr.Gen.Stderr)), Detail: det, Dir: cr.Dir, Tags: tags})
			continue
		}
		rep.NonTrivial(s.key())
		if !s.accept {
			if len(cr.Written) > 0 {
				rep.Violation(&core.Viol{Kind: "emitted_on_rejection", Case: cr.Case.Name, Summary: "rejected signature but files were written", Detail: det, Dir: cr.Dir, Tags: tags})
			}
			rep.Count("rejected_as_modelled", 1)
			continue
		}
		rep.Count("accepted_as_modelled", 1)
		if !cr.Built {
			rep.Violation(&core.Viol{Kind: "signature_mismatch", Case: cr.Case.Name, Summary: "accepted shape " + s.key() + " does not compile against its declaration: " + compileClass(cr.BuildErr), Detail: det + "\n" + cr.BuildErr, Dir: cr.Dir, Tags: tags})
			continue
		}
		for _, me := range cr.Methods {
			rep.Count("routing_executions", 1)
			for _, v := range me.Violations {
				rep.Violation(&core.Viol{Kind: v.Kind, Case: cr.Case.Name, Summary: fmt.Sprintf("%s for shape %s: %s", v.Kind, s.key(), firstLine(v.Detail)), Detail: det + "\n" + v.Detail, Dir: cr.Dir, Tags: tags})
			}
		}
		if len(rep.Samples) < 5 && rep.Evaluations%41 == 0 {
			rep.Sample(map[string]any{"shape": s.key(), "accepted": s.accept, "exit": cr.Gen.Exit, "executed": len(cr.Methods)})
		}
	}
	if p.BatchErr != nil {
		rep.Inconclusive = append(rep.Inconclusive, p.BatchErr.Error())
	}
	if len(rep.Samples) == 0 && len(shapes) > 0 {
		rep.Sample(map[string]any{"shape": shapes[0].key(), "accepted": shapes[0].accept})
	}
	c14UserError(e, rep)
	return rep.Finish()
}

// c14UserError: "an optional second result must be the built-in error" - a user type that is merely NAMED error
// (it shadows the built-in one in its package) is not.
func c14UserError(e *core.Env, rep *core.Report) {
	bin, err := e.BuildCLI("plain")
	if err != nil {
		rep.Inconclusive = append(rep.Inconclusive, err.Error())
		return
	}
	root := filepath.Join(e.Scratch, "c14u")
	os.MkdirAll(root, 0o755)
	os.WriteFile(filepath.Join(root, "go.mod"), []byte("module vcase\n\ngo 1.22\n"), 0o644)
	progs := map[string]string{
		"iface":  "package p\n\ntype error interface{ Oops() }\ntype A struct{ V int }\ntype T struct{ V int }\n\n// goverter:converter\ntype Conv interface {\n\tM(source A) (T, error)\n}\n",
		"update": "package p\n\ntype error struct{ Code int }\ntype A struct{ V int }\ntype T struct{ V int }\n\n// goverter:converter\ntype Conv interface {\n\t// goverter:update target\n\tM(source A, target *T) error\n}\n",
		"vars":   "package p\n\ntype error = string\ntype A struct{ V int }\ntype T struct{ V int }\n\n// goverter:variables\nvar (\n\tM func(source A) (T, error)\n)\n",
	}
	// functions that the output package cannot call
	progs["default_unexported"] = "package p\n\ntype A struct{ V int }\ntype T struct{ V int }\nfunc newT() T { return T{} }\n\n// goverter:converter\ntype Conv interface {\n\t// goverter:default newT\n\tM(source A) T\n}\n"
	progs["mapfunc_unexported"] = "package p\n\ntype A struct{ V int }\ntype T struct{ V int }\nfunc conv(v int) int { return v }\n\n// goverter:converter\ntype Conv interface {\n\t// goverter:map V V | conv\n\tM(source A) T\n}\n"
	progs["extend_unexported"] = "package p\n\ntype A struct{ V KA }\ntype KA struct{ N int }\ntype T struct{ V KT }\ntype KT struct{ N int }\nfunc conv(v KA) KT { return KT{} }\n\n// goverter:converter\n// goverter:extend conv\ntype Conv interface {\n\tM(source A) T\n}\n"
	for name, src := range progs {
		dir := filepath.Join(root, name)
		writeFiles(dir, map[string]string{"p/input.go": src})
		gr := runGen(e, bin, dir, dir, []string{"gen", "./p"}, nil)
		rep.Evaluations++
		if gr.Exit != 1 || strings.TrimSpace(gr.Stderr) == "" {
			rep.Violation(&core.Viol{Kind: "invalid_signature_accepted", Case: "usererror_" + name, Summary: fmt.Sprintf("%s: a signature that must be rejected (user type named error / function the output package cannot call) was accepted (exit %d)", name, gr.Exit), Detail: src + "\n" + gr.Stderr, Dir: dir, Tags: []string{"use:usererror"}})
			continue
		}
		rep.NonTrivial("usererror|" + name)
	}
}

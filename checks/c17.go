package checks

import (
	"fmt"
	"math/rand"
	"os"
	"path/filepath"
	"sort"
	"strings"
	"time"

	"verif/internal/core"
)

func init() { Registry["C17"] = C17 }

type c17Conv struct {
	pkg   int
	name  string
	fault string // "" | directive | signature | conversion
	out   string // "" default | own | shared | same
}

type c17Scenario struct {
	name  string
	npkg  int
	convs []c17Conv
	prior string // none | current | stale | foreign
}

// render writes the input files of the scenario.
func (s *c17Scenario) files() map[string]string {
	files := map[string]string{}
	for p := 0; p < s.npkg; p++ {
		var sb strings.Builder
		fmt.Fprintf(&sb, "package pk%d\n\n", p)
		for _, c := range s.convs {
			if c.pkg != p {
				continue
			}
			fmt.Fprintf(&sb, "type In%s struct{ V int; W string }\n", c.name)
			if c.fault == "extend2" {
				fmt.Fprintf(&sb, "func Okay%s(v uint8) uint16 { return uint16(v) }\n", c.name)
			}
			if c.fault == "conversion" {
				fmt.Fprintf(&sb, "type Out%s struct{ V int; W string; Missing bool }\n\n", c.name)
			} else {
				fmt.Fprintf(&sb, "type Out%s struct{ V int; W string }\n\n", c.name)
			}
			sb.WriteString("// goverter:converter\n")
			switch c.fault {
			case "directive":
				sb.WriteString("// goverter:bogusSetting yes\n")
			case "render":
				// fails only when the finished file is rendered, i.e. after every converter was generated in memory
				sb.WriteString("// goverter:output:raw func broken( {\n")
			case "extend":
				sb.WriteString("// goverter:extend NoSuchFunction\n")
			case "extend2":
				// a failing entry followed by a valid one on the same line
				fmt.Fprintf(&sb, "// goverter:extend NoSuchFunction Okay%s\n", c.name)
			}
			if c.fault == "location" || c.fault == "location2" || c.fault == "location3" {
				// fails only when the files are written: the output file is an existing directory / lies below a regular file
				if c.fault == "location3" {
					// the regular file sits two levels above the output file
					fmt.Fprintf(&sb, "// goverter:output:file ./plain%s.txt/deep/er/zz.go\n", strings.ToLower(c.name))
					files[fmt.Sprintf("pk%d/plain%s.txt", p, strings.ToLower(c.name))] = "a regular file\n"
				} else if c.fault == "location" {
					fmt.Fprintf(&sb, "// goverter:output:file ./blocked%s\n", strings.ToLower(c.name))
					files[fmt.Sprintf("pk%d/blocked%s/.keep", p, strings.ToLower(c.name))] = "keep\n"
				} else {
					fmt.Fprintf(&sb, "// goverter:output:file ./plain%s.txt/gen.go\n", strings.ToLower(c.name))
					files[fmt.Sprintf("pk%d/plain%s.txt", p, strings.ToLower(c.name))] = "a regular file\n"
				}
				fmt.Fprintf(&sb, "type %s interface {\n\tConvert(source In%s) Out%s\n}\n\n", c.name, c.name, c.name)
				continue
			}
			switch c.out {
			case "own":
				fmt.Fprintf(&sb, "// goverter:output:file ./generated/%s.go\n", strings.ToLower(c.name))
			case "shared":
				fmt.Fprintf(&sb, "// goverter:output:file ../out/%s.go\n// goverter:output:package vcase/%s/out\n", strings.ToLower(c.name), s.name)
			case "deep":
				fmt.Fprintf(&sb, "// goverter:output:file ./gen/level1/level2/%s.go\n", strings.ToLower(c.name))
			case "same":
				fmt.Fprintf(&sb, "// goverter:output:file ./%s_gen.go\n", strings.ToLower(c.name))
			}
			fmt.Fprintf(&sb, "type %s interface {\n", c.name)
			if c.fault == "signature" {
				fmt.Fprintf(&sb, "\tConvert(a In%s, b In%s) Out%s\n}\n\n", c.name, c.name, c.name)
			} else {
				fmt.Fprintf(&sb, "\tConvert(source In%s) Out%s\n}\n\n", c.name, c.name)
			}
		}
		files[fmt.Sprintf("pk%d/input.go", p)] = sb.String()
	}
	return files
}

func writeFiles(dir string, files map[string]string) {
	for p, b := range files {
		fp := filepath.Join(dir, p)
		os.MkdirAll(filepath.Dir(fp), 0o755)
		os.WriteFile(fp, []byte(b), 0o644)
	}
}

// mutating reports the strace events that change the tree.
func mutating(evs []core.FSEvent) []string {
	var out []string
	for _, e := range evs {
		if e.Fail {
			continue
		}
		if (e.Op == "openat" || e.Op == "open") && !strings.Contains(e.Flags, "O_CREAT") && !strings.Contains(e.Flags, "O_TRUNC") && !strings.Contains(e.Flags, "O_APPEND") {
			// opening an existing file for writing creates, truncates and modifies nothing; a write through that
			// descriptor is an event of its own
			continue
		}
		out = append(out, e.String())
	}
	return out
}

// C17: a failing run changes no files and the exit status reflects the outcome.
func C17(e *core.Env) int {
	rep := core.NewReport(e, "fault_enumeration")
	rep.Rule = "scenarios of 2-5 packages with 2-7 converters (default, own-file, shared-package and same-package outputs); for every scenario every non-empty subset of converters (all subsets up to 4 converters, seeded random subsets beyond) is made faulty at one of six stages (directive parsing, custom function lookup, signature, conversion, rendering of the finished file, an output location that cannot be written: existing directory / path below a regular file) with prior output state none/current/stale/foreign; each run is the real CLI under strace -ff: a failing run must exit 1 with a diagnostic, perform no successful create/truncate/write/rename/unlink/mkdir/chmod below the module tree, and leave the tree digest (content, mode, mtime) unchanged; the fault-free run must exit 0 and leave exactly the bytes of the in-process generation result; help exits 0, usage errors exit 1, neither writes; injected ENOSPC/EACCES on write/openat/mkdirat of an output must not end in exit 0 with a missing or short file; non-trivial = a run with >=1 faulty and >=1 healthy converter, or an injected fault that fired; distinct = (scenario shape, faulty subset, stages, prior state)"
	rep.Assumptions = []string{"strace sees every file-system syscall of the CLI and its children", "the in-process generation result (public API) is the reference for the bytes of a successful run"}
	rep.Floor = tierN(e, 20, 300)
	bin, err := e.BuildCLI("plain")
	if err != nil {
		rep.Inconclusive = append(rep.Inconclusive, err.Error())
		return rep.Finish()
	}
	helper, err := e.BuildHelper("inproc")
	if err != nil {
		rep.Inconclusive = append(rep.Inconclusive, err.Error())
		return rep.Finish()
	}
	root := filepath.Join(e.Scratch, "c17")
	os.MkdirAll(root, 0o755)
	os.WriteFile(filepath.Join(root, "go.mod"), []byte("module vcase\n\ngo 1.22\n"), 0o644)
	r := rand.New(rand.NewSource(e.Seed*48271 + 17))
	nScen := tierN(e, 8, 60)
	type run struct {
		scen   c17Scenario
		subset []int
		label  string
	}
	var runs []run
	stages := []string{"directive", "signature", "conversion", "render", "extend", "extend2", "location", "location2", "location3"}
	priors := []string{"none", "current", "stale", "foreign"}
	outs := []string{"", "", "own", "shared", "same", "deep"}
	for si := 0; si < nScen; si++ {
		npkg := 2 + r.Intn(tierN(e, 2, 4))
		nconv := 2 + r.Intn(tierN(e, 3, 6))
		base := c17Scenario{name: fmt.Sprintf("s%03d", si), npkg: npkg}
		for k := 0; k < nconv; k++ {
			pkg := k % npkg
			if k >= npkg {
				pkg = r.Intn(npkg)
			}
			base.convs = append(base.convs, c17Conv{pkg: pkg, name: fmt.Sprintf("C%c", 'A'+k), out: outs[r.Intn(len(outs))]})
		}
		var subsets [][]int
		subsets = append(subsets, nil) // the fault-free run
		if nconv <= 4 {
			for mask := 1; mask < 1<<nconv; mask++ {
				var s []int
				for k := 0; k < nconv; k++ {
					if mask&(1<<k) != 0 {
						s = append(s, k)
					}
				}
				subsets = append(subsets, s)
			}
		} else {
			for k := 0; k < nconv; k++ {
				subsets = append(subsets, []int{k})
			}
			for x := 0; x < 8; x++ {
				var s []int
				for k := 0; k < nconv; k++ {
					if r.Intn(3) == 0 {
						s = append(s, k)
					}
				}
				if len(s) > 0 {
					subsets = append(subsets, s)
				}
			}
		}
		for xi, sub := range subsets {
			sc := base
			sc.name = fmt.Sprintf("s%03dx%03d", si, xi)
			sc.convs = append([]c17Conv{}, base.convs...)
			var lab []string
			for _, k := range sub {
				sc.convs[k].fault = stages[r.Intn(len(stages))]
				lab = append(lab, sc.convs[k].name+":"+sc.convs[k].fault)
			}
			sc.prior = priors[r.Intn(len(priors))]
			// the shared output package path embeds the scenario name
			runs = append(runs, run{scen: sc, subset: sub, label: strings.Join(lab, ",")})
		}
	}
	maxRuns := tierN(e, 140, 3500)
	if len(runs) > maxRuns {
		// keep all fault-free runs and a seeded sample of the rest
		r.Shuffle(len(runs), func(i, j int) { runs[i], runs[j] = runs[j], runs[i] })
		runs = runs[:maxRuns]
	}
	// systematic part (independent of the random stage draws above): in the first scenarios the FIRST converter
	// fails at each stage in turn while all later ones are healthy
	{
		r2 := rand.New(rand.NewSource(e.Seed*7 + 171))
		for si := 0; si < tierN(e, 2, 8); si++ {
			npkg := 2 + si%2
			base := c17Scenario{name: fmt.Sprintf("t%03d", si), npkg: npkg}
			for k := 0; k < 3; k++ {
				// output kinds rotate so that every kind (incl. three new directory levels) occurs in every run
				_ = r2
				base.convs = append(base.convs, c17Conv{pkg: k % npkg, name: fmt.Sprintf("C%c", 'A'+k), out: []string{"deep", "own", "shared", "same", ""}[(si+k)%5]})
			}
			{
				// the fault-free run of the scenario
				sc := base
				sc.name = fmt.Sprintf("t%03dfree", si)
				sc.convs = append([]c17Conv{}, base.convs...)
				sc.prior = priors[si%len(priors)]
				runs = append(runs, run{scen: sc, subset: nil, label: ""})
			}
			for xi, st := range stages {
				for _, k := range []int{0, 1} {
					sc := base
					sc.name = fmt.Sprintf("t%03dx%02d%d", si, xi, k)
					sc.convs = append([]c17Conv{}, base.convs...)
					sc.convs[k].fault = st
					sc.prior = priors[(si+xi+k)%len(priors)]
					runs = append(runs, run{scen: sc, subset: []int{k}, label: sc.convs[k].name + ":" + st})
				}
			}
		}
	}
	type result struct {
		viols []*core.Viol
		nt    string
		info  map[string]any
		evs   int
	}
	results := make([]result, len(runs))
	core.Parallel(len(runs), func(i int) {
		ru := runs[i]
		sc := ru.scen
		dir := filepath.Join(root, sc.name)
		res := &results[i]
		bad := func(kind, sum, detail string) {
			res.viols = append(res.viols, &core.Viol{Kind: kind, Case: sc.name, Summary: sum, Detail: detail, Dir: dir, Tags: []string{"prior:" + sc.prior}})
		}
		// expected outputs of the fault-free version of this scenario (for prior state and for success runs)
		good := sc
		good.convs = append([]c17Conv{}, sc.convs...)
		for k := range good.convs {
			good.convs[k].fault = ""
		}
		writeFiles(dir, good.files())
		outs, hres := runInproc(e, helper, map[string]any{"dir": dir, "patterns": []string{"./..."}, "buildTags": "goverter", "constraint": "!goverter", "variants": []inprocVariant{{Name: "v"}}, "withFiles": true, "mode": "together"}, 2*time.Minute)
		expected := map[string]string{}
		for _, o := range outs {
			for p, b := range o.Files {
				expected[p] = b
			}
		}
		_ = hres
		// the in-process reference run must leave no trace in the tree the CLI run is judged on
		removeEmptyDirs(dir)
		// prior state
		switch sc.prior {
		case "current":
			for p, b := range expected {
				os.MkdirAll(filepath.Dir(p), 0o755)
				os.WriteFile(p, []byte(b), 0o644)
			}
		case "stale":
			for p, b := range expected {
				os.MkdirAll(filepath.Dir(p), 0o755)
				os.WriteFile(p, []byte(b+"\n// stale content from an earlier run\n"), 0o644)
				old := time.Now().Add(-48 * time.Hour)
				os.Chtimes(p, old, old)
			}
		case "foreign":
			k := 0
			for p := range expected {
				if k%2 == 0 {
					os.MkdirAll(filepath.Dir(p), 0o755)
					// a user-owned file at the output path (same package clause so the tree still loads)
					pkgLine := "package x\n"
					for _, l := range strings.Split(expected[p], "\n") {
						if strings.HasPrefix(l, "package ") {
							pkgLine = l + "\n"
						}
					}
					os.WriteFile(p, []byte("//go:build !goverter\n\n"+pkgLine+"\n// user file\n"), 0o600)
				}
				k++
			}
		}
		// now the actual (possibly faulty) inputs
		writeFiles(dir, sc.files())
		before := core.SnapshotTree(dir)
		// one pattern for everything, or one pattern per package (ascending / descending)
		genArgs := []string{"gen", "./..."}
		if sc.npkg > 1 && i%2 == 1 {
			genArgs = []string{"gen"}
			for p := 0; p < sc.npkg; p++ {
				q := p
				if i%4 == 3 {
					q = sc.npkg - 1 - p
				}
				genArgs = append(genArgs, fmt.Sprintf("./pk%d", q))
			}
		}
		cli, evs, err := core.RunStraced(bin, genArgs, core.RunOpts{Dir: dir, Env: e.GoEnv(), Timeout: 2 * time.Minute}, dir, nil)
		if err != nil {
			return
		}
		after := core.SnapshotTree(dir)
		res.evs = len(evs)
		detail := func() string {
			return fmt.Sprintf("args: %v\nfaulty: %s prior=%s\nexit=%d\nstderr: %s\nmutating syscalls: %v\ntree diff: %v", genArgs, ru.label, sc.prior, cli.Exit, head(cli.Stderr, 1500), mutating(evs), before.Diff(after))
		}
		if len(ru.subset) > 0 {
			if cli.Exit != 1 {
				bad("exit_status", fmt.Sprintf("run with faulty converters (%s) exited %d instead of 1", stagesOf(ru.label), cli.Exit), detail())
			}
			if strings.TrimSpace(cli.Stderr) == "" {
				bad("no_diagnostic", "failing run printed nothing on stderr", detail())
			}
			if m := mutating(evs); len(m) > 0 {
				bad("write_on_failure", fmt.Sprintf("failing run (%s) performed mutating syscalls: %s", stagesOf(ru.label), syscallOps(evs)), detail())
			}
			if d := before.Diff(after); len(d) > 0 {
				bad("tree_changed_on_failure", fmt.Sprintf("failing run (%s) changed the tree: %s", stagesOf(ru.label), diffKinds(d)), detail())
			}
			if len(ru.subset) < len(sc.convs) {
				res.nt = fmt.Sprintf("%d/%d|%s|%s|%s", sc.npkg, len(sc.convs), ru.label, sc.prior, outsOf(sc))
			}
		} else {
			if cli.Exit != 0 {
				bad("exit_status", fmt.Sprintf("fault-free run exited %d", cli.Exit), detail())
			} else {
				for p, b := range expected {
					got, err := os.ReadFile(p)
					if err != nil {
						bad("missing_output", "exit 0 but an output file is missing", detail()+"\nmissing: "+p)
					} else if string(got) != b {
						bad("wrong_output", "exit 0 but an output file differs from the in-process generation result", detail()+"\nfile: "+p)
					}
				}
				if len(expected) == 0 {
					bad("no_expected", "in-process reference produced no files", detail()+"\nhelper: "+head(hres.Stderr, 500))
				}
				// modes requested for new files / dirs are C15's business
			}
			res.nt = fmt.Sprintf("%d/%d|ok|%s|%s", sc.npkg, len(sc.convs), sc.prior, outsOf(sc))
		}
		if i%37 == 0 {
			res.info = map[string]any{"scenario": sc.name, "packages": sc.npkg, "converters": len(sc.convs), "faulty": ru.label, "prior": sc.prior, "exit": cli.Exit, "fs_events": len(evs), "stderr_class": core.Classify(cli.Stderr)}
		}
	})
	for i := range results {
		rep.Evaluations++
		for _, v := range results[i].viols {
			rep.Violation(v)
		}
		if results[i].nt != "" {
			rep.NonTrivial(results[i].nt)
		}
		if results[i].info != nil {
			rep.Sample(results[i].info)
		}
		rep.Count("strace_fs_events", results[i].evs)
	}
	c17Argv(e, rep, bin, root)
	c17Inject(e, rep, bin, helper, root)
	return rep.Finish()
}

func stagesOf(label string) string {
	set := map[string]bool{}
	for _, p := range strings.Split(label, ",") {
		if i := strings.Index(p, ":"); i >= 0 {
			set[p[i+1:]] = true
		}
	}
	var l []string
	for k := range set {
		l = append(l, k)
	}
	sort.Strings(l)
	return strings.Join(l, "+")
}

func syscallOps(evs []core.FSEvent) string {
	set := map[string]bool{}
	for _, e := range evs {
		if !e.Fail {
			set[e.Op] = true
		}
	}
	var l []string
	for k := range set {
		l = append(l, k)
	}
	sort.Strings(l)
	return strings.Join(l, ",")
}

func diffKinds(d []string) string {
	set := map[string]bool{}
	for _, x := range d {
		set[strings.SplitN(x, " ", 2)[0]] = true
	}
	var l []string
	for k := range set {
		l = append(l, k)
	}
	sort.Strings(l)
	return strings.Join(l, ",")
}

func outsOf(sc c17Scenario) string {
	var l []string
	for _, c := range sc.convs {
		l = append(l, c.out)
	}
	return strings.Join(l, ",")
}

const c17Good = "package p\n\n// goverter:converter\ntype Converter interface {\n\tConvert(source In) Out\n}\n\ntype In struct{ V int }\ntype Out struct{ V int }\n"

// c17Argv: help exits 0, usage errors exit 1, neither generates.
func c17Argv(e *core.Env, rep *core.Report, bin, root string) {
	type av struct {
		args []string
		exit int
	}
	vecs := []av{
		{[]string{"help"}, 0}, {[]string{"-h"}, 0}, {[]string{"--help"}, 0}, {[]string{"gen", "-h"}, 0}, {[]string{"gen", "--help"}, 0},
		{[]string{}, 1}, {[]string{"gen"}, 1}, {[]string{"bogus"}, 1}, {[]string{"gen", "-x", "./p"}, 1}, {[]string{"-x"}, 1},
		{[]string{"gen", "-g"}, 1}, {[]string{"gen", "-cwd"}, 1}, {[]string{"generate", "./p"}, 1}, {[]string{"gen", "-build-tags"}, 1},
		{[]string{"gen", "./nonexistent"}, 1}, {[]string{"gen", "-g", "bogusSetting", "./p"}, 1}, {[]string{"gen", "-cwd", "/nonexistent-dir", "./p"}, 1},
		{[]string{"gen", "-h", "./p"}, 0}, {[]string{"help", "gen", "./p"}, 0},
		// flags without any pattern: a usage error, not "generate for the current directory"
		{[]string{"gen", "-g", "ignoreMissing no"}, 1}, {[]string{"gen", "-cwd", "p"}, 1}, {[]string{"gen", "--"}, 1}, {[]string{"gen", "-build-tags", "x"}, 1},
		{[]string{"gen", "-cwd", "p", "-g", "skipCopySameType"}, 1}, {[]string{"gen", "-output-constraint", "x", "-cwd", "p"}, 1},
	}
	for i, v := range vecs {
		dir := filepath.Join(root, fmt.Sprintf("argv%02d", i))
		writeFiles(dir, map[string]string{"p/input.go": c17Good})
		before := core.SnapshotTree(dir)
		cli, evs, err := core.RunStraced(bin, v.args, core.RunOpts{Dir: dir, Env: e.GoEnv(), Timeout: time.Minute}, dir, nil)
		if err != nil {
			continue
		}
		after := core.SnapshotTree(dir)
		rep.Evaluations++
		rep.Count("argv_vectors", 1)
		det := fmt.Sprintf("args=%v exit=%d stdout=%s stderr=%s events=%v diff=%v", v.args, cli.Exit, head(cli.Stdout, 200), head(cli.Stderr, 300), mutating(evs), before.Diff(after))
		if cli.Exit != v.exit {
			rep.Violation(&core.Viol{Kind: "exit_status", Case: fmt.Sprint(v.args), Summary: fmt.Sprintf("argv %v exited %d, want %d", v.args, cli.Exit, v.exit), Detail: det})
		}
		if len(mutating(evs)) > 0 || len(before.Diff(after)) > 0 {
			rep.Violation(&core.Viol{Kind: "write_without_generation", Case: fmt.Sprint(v.args), Summary: fmt.Sprintf("argv %v (help/usage error) wrote to the tree", v.args), Detail: det})
		}
		if v.exit == 1 && strings.TrimSpace(cli.Stderr) == "" {
			rep.Violation(&core.Viol{Kind: "no_diagnostic", Case: fmt.Sprint(v.args), Summary: fmt.Sprintf("argv %v failed without stderr output", v.args), Detail: det})
		}
		rep.NonTrivial("argv|" + strings.Join(v.args, " "))
	}
}

// c17Inject: I/O faults injected with strace must never end in exit 0 with missing/short outputs.
func c17Inject(e *core.Env, rep *core.Report, bin, helper, root string) {
	type inj struct{ call, errno string }
	injs := []inj{{"write", "ENOSPC"}, {"write", "EIO"}, {"openat", "EACCES"}, {"openat", "ENOSPC"}, {"mkdirat", "EACCES"}, {"mkdirat", "ENOSPC"}}
	nfiles := 3
	var jobs []struct {
		in   inj
		file int
		when int
	}
	for _, in := range injs {
		for f := 0; f < nfiles; f++ {
			jobs = append(jobs, struct {
				in   inj
				file int
				when int
			}{in, f, 1})
		}
	}
	if e.Tier != "thorough" {
		jobs = jobs[:len(jobs)/1]
	}
	files := map[string]string{}
	for k := 0; k < nfiles; k++ {
		files[fmt.Sprintf("q%d/input.go", k)] = strings.Replace(c17Good, "package p", fmt.Sprintf("package q%d", k), 1)
	}
	var viols []*core.Viol
	fired := make([]bool, len(jobs))
	vv := make([][]*core.Viol, len(jobs))
	core.Parallel(len(jobs), func(i int) {
		j := jobs[i]
		dir := filepath.Join(root, fmt.Sprintf("inj%03d", i))
		writeFiles(dir, files)
		target := filepath.Join(dir, fmt.Sprintf("q%d/generated/generated.go", j.file))
		p := target
		if j.in.call == "mkdirat" {
			p = filepath.Dir(target)
		}
		inject := []string{"-e", fmt.Sprintf("inject=%s:error=%s:when=%d", j.in.call, j.in.errno, j.when), "-P", p}
		cli, evs, err := core.RunStraced(bin, []string{"gen", "./..."}, core.RunOpts{Dir: dir, Env: e.GoEnv(), Timeout: 2 * time.Minute}, dir, inject)
		if err != nil {
			return
		}
		for _, ev := range evs {
			if ev.Fail && ev.Path == p {
				fired[i] = true
			}
		}
		if cli.Exit == 0 {
			// every output must be complete
			for k := 0; k < nfiles; k++ {
				f := filepath.Join(dir, fmt.Sprintf("q%d/generated/generated.go", k))
				b, err := os.ReadFile(f)
				if err != nil || !strings.Contains(string(b), "func (c *ConverterImpl) Convert") {
					vv[i] = append(vv[i], &core.Viol{Kind: "exit0_after_io_fault", Case: fmt.Sprintf("%s:%s on file %d", j.in.call, j.in.errno, j.file),
						Summary: fmt.Sprintf("injected %s on %s of an output: goverter exited 0 but an output file is missing or incomplete", j.in.errno, j.in.call),
						Detail:  fmt.Sprintf("file %s err=%v len=%d fired=%v\nstderr=%s", f, err, len(b), fired[i], cli.Stderr), Dir: dir})
					break
				}
			}
		} else if strings.TrimSpace(cli.Stderr) == "" {
			vv[i] = append(vv[i], &core.Viol{Kind: "no_diagnostic", Case: fmt.Sprintf("%s:%s", j.in.call, j.in.errno), Summary: "I/O fault ended in a non-zero exit without a diagnostic", Dir: dir})
		}
	})
	nf := 0
	for i := range jobs {
		rep.Evaluations++
		viols = append(viols, vv[i]...)
		if fired[i] {
			nf++
			rep.NonTrivial(fmt.Sprintf("inject|%s|%s|%d", jobs[i].in.call, jobs[i].in.errno, jobs[i].file))
		}
	}
	for _, v := range viols {
		rep.Violation(v)
	}
	rep.Extra["io_faults_injected"] = len(jobs)
	rep.Extra["io_faults_fired"] = nf
}

// removeEmptyDirs removes directories without entries below root (deepest first).
func removeEmptyDirs(root string) {
	var dirs []string
	filepath.Walk(root, func(p string, info os.FileInfo, err error) error {
		if err == nil && info.IsDir() && p != root {
			dirs = append(dirs, p)
		}
		return nil
	})
	sort.Sort(sort.Reverse(sort.StringSlice(dirs)))
	for _, d := range dirs {
		if ents, err := os.ReadDir(d); err == nil && len(ents) == 0 {
			os.Remove(d)
		}
	}
}

package checks

import (
	"fmt"
	"math/rand"
	"strings"

	"verif/internal/core"
	"verif/internal/pgen"
)

func init() {
	Registry["C06"] = C06
	Registry["C07"] = C07
}

func customCorpus(e *core.Env, n int, prefix string, mod func(i int, o *pgen.CustomOpts)) []*pgen.Case {
	r := rand.New(rand.NewSource(e.Seed*15485863 + 6))
	var cases []*pgen.Case
	for i := 0; i < n; i++ {
		o := pgen.CustomOpts{Format: formats[i%3], Seed: e.Seed*977 + int64(i), WrapMode: []string{"none", "wrapErrors", "using"}[(i/3)%3], WrapLevel: []string{"conv", "cli", "meth"}[(i/9)%3]}
		if mod != nil {
			mod(i, &o)
		}
		// the first cases go through all hook kinds so that none depends on the luck of the seed
		if kinds := pgen.HookKinds(); i%4 != 3 && i-i/4 < len(kinds) {
			o.ForceKind = kinds[i-i/4]
			if strings.HasPrefix(o.ForceKind, "extendUnexported") {
				o.Format = "variables"
			}
			if o.ForceKind == "extendConv" {
				o.Format = "struct"
			}
			if o.WrapLevel == "meth" {
				o.WrapLevel = "conv"
			}
		}
		cr := rand.New(rand.NewSource(r.Int63()))
		if i%4 == 3 {
			// type graphs with cycles: generated helpers that call each other while their signatures still change
			cases = append(cases, pgen.GraphCase(cr, fmt.Sprintf("%sg%05d", prefix, i), pgen.GraphOpts{Format: o.Format, Seed: o.Seed, NValues: o.NValues, WrapMode: o.WrapMode, MaxFaults: o.MaxFaults, Fallible: o.Fallible}))
			continue
		}
		cases = append(cases, pgen.CustomCase(cr, fmt.Sprintf("%s%05d", prefix, i), o))
	}
	return cases
}

// C06: custom functions/declared methods are used wherever their types occur.
func C06(e *core.Env) int {
	rep := core.NewReport(e, "exploration")
	rep.Rule = "converters mixing automatic rules with custom functions: extend (local, other package, regex-selected, converter interface as first argument, with error result, with contexts, on underlying types via useUnderlyingTypeMethods), map|FUNC with and without source and context, declared methods with their own field settings; each (S,T) hook pair occurs at 1-3 of the positions field / slice element / map value / pointer / nested named struct / slice of nested / map of slices of pointers, optionally below a recursive pointer and a list method; every fourth case is a TYPE GRAPH (2-5 named structs referring to each other through pointers, slices, maps and maps of slices, cycles included, with a fallible and a context-taking extend function on leaf types and field order shuffled) so that generated helpers call each other while their signatures still change; 0-2 context parameters in random argument positions; every custom function stamps its input and folds the context it received into the result, so the expected value (reference interpreter with an override table calling the same functions) differs from the automatic conversion and from a call with wrong arguments; negative programs (context nobody supplies, explicit method in the chain without it) must be rejected; non-trivial = executed case with >=1 custom function whose values were judged; distinct = structural fingerprint"
	rep.Assumptions = []string{"custom functions of the corpus are deterministic and total (apart from the fault plan, empty here)", "override order of two extend functions with identical signature and context is not judged"}
	rep.Floor = tierN(e, 30, 300)
	n := tierN(e, 240, 3500)
	nv := tierN(e, 24, 60)
	cases := customCorpus(e, n, "e", func(i int, o *pgen.CustomOpts) { o.NValues = nv; o.MaxFaults = 4 })
	cases = append(cases, c06Negatives()...)
	p, err := runPipelineOpts(e, "c06", cases, pipeOpts{Execute: true})
	if err != nil {
		rep.Inconclusive = append(rep.Inconclusive, err.Error())
		return rep.Finish()
	}
	var pos []*core.CaseRun
	for _, cr := range p.Mod.Cases {
		if neg := cr.Case.Features["negative"]; neg != "" {
			rep.Evaluations++
			rep.NonTrivial("negative|" + neg)
			if cr.Gen.Exit != 1 || strings.TrimSpace(cr.Gen.Stderr) == "" {
				rep.Violation(&core.Viol{Kind: "missing_context_accepted", Case: cr.Case.Name, Summary: fmt.Sprintf("%s: generation did not fail (exit %d)", neg, cr.Gen.Exit), Detail: cr.Case.Note + "\n" + cr.Gen.Stderr, Dir: cr.Dir})
			}
			continue
		}
		pos = append(pos, cr)
	}
	p.Mod.Cases = pos
	kinds := map[string]bool{"panic": true, "value": true, "unexpected_error": true, "fatal": true, "source_modified": true}
	foldRuntime(rep, p, kinds, func(cr *core.CaseRun) bool {
		for _, me := range cr.Methods {
			if me.Judged > 0 {
				return true
			}
		}
		return false
	})
	for _, cr := range pos {
		if !cr.Generated {
			rep.Violation(&core.Viol{Kind: "valid_program_rejected", Case: cr.Case.Name, Summary: "program with custom functions was rejected: " + core.Classify(cr.Gen.Stderr) + " (" + cr.Case.Features["hooks"] + ")", Detail: cr.Gen.Stderr, Dir: cr.Dir, Tags: caseTags(cr.Case)})
		} else if !cr.Built {
			rep.Violation(&core.Viol{Kind: "compile", Case: cr.Case.Name, Summary: "emitted code does not compile: " + compileClass(cr.BuildErr) + " (" + cr.Case.Features["hooks"] + ")", Detail: cr.BuildErr, Dir: cr.Dir, Tags: caseTags(cr.Case)})
		}
		for _, k := range strings.Split(cr.Case.Features["hooks"], "+") {
			if k != "" {
				rep.Set("hook_kinds_seen", k)
			}
		}
	}
	return rep.Finish()
}

func c06Negatives() []*pgen.Case {
	mk := func(name, neg, body string) *pgen.Case {
		c := pgen.RawCase("n_"+name, map[string]string{"p/input.go": "package p\n\n" + body}, nil, []string{"./p"})
		c.Feature("negative", neg)
		c.Note = body
		return c
	}
	types := "type In struct{ H HA }\ntype HA struct{ V int }\ntype Out struct{ H HB }\ntype HB struct{ V int }\ntype Ctx struct{ ID string }\n\n// goverter:context c\nfunc Ext(a HA, c Ctx) HB { return HB{V: a.V} }\n\n"
	return []*pgen.Case{
		mk("ctx_missing", "extend function needs a context no caller supplies", types+"// goverter:converter\n// goverter:extend Ext\ntype Converter interface {\n\tConvert(source In) Out\n}\n"),
		mk("ctx_missing_in_chain", "explicit method in the chain lacks the context", types+"type Wrap struct{ I In }\ntype WrapOut struct{ I Out }\n\n// goverter:converter\n// goverter:extend Ext\ntype Converter interface {\n\t// goverter:context c\n\tOuter(source Wrap, c Ctx) WrapOut\n\tInner(source In) Out\n}\n"),
		mk("src_method_ctx_missing_nested", "a source method of a NESTED struct needs a context the declared method does not have",
			"type Locale string\ntype Order struct{ ID int; Customer Customer }\ntype Customer struct{ First string }\nfunc (c Customer) DisplayName(locale Locale) string { return c.First + string(locale) }\ntype OrderView struct{ ID int; Customer CustomerView }\ntype CustomerView struct{ First string; DisplayName string }\n\n// goverter:converter\ntype Converter interface {\n\tConvert(source Order) OrderView\n}\n"),
		mk("src_method_ctx_missing", "a source method needs a context the declared method does not have",
			"type Locale string\ntype Customer struct{ First string }\nfunc (c Customer) DisplayName(locale Locale) string { return c.First + string(locale) }\ntype CustomerView struct{ First string; DisplayName string }\n\n// goverter:converter\ntype Converter interface {\n\tConvert(source Customer) CustomerView\n}\n"),
		mk("declared_method_ctx_missing", "a declared method for the nested pair needs a context the calling method does not have",
			"type In struct{ H HA2 }\ntype HA2 struct{ V int }\ntype Out struct{ H HB2 }\ntype HB2 struct{ V int }\ntype Ctx2 struct{ ID string }\n\n// goverter:converter\ntype Converter interface {\n\tOuter(source In) Out\n\t// goverter:context c\n\tInner(source HA2, c Ctx2) HB2\n}\n"),
		mk("map_func_ctx_missing", "map|FUNC needs a context the method does not have", "type In struct{ V int }\ntype Out struct{ V int; T string }\ntype Ctx struct{ ID string }\n// goverter:context c\nfunc Tag(c Ctx) string { return c.ID }\n\n// goverter:converter\ntype Converter interface {\n\t// goverter:map T | Tag\n\tConvert(source In) Out\n}\n"),
		mk("default_ctx_missing", "default FUNC needs a context the method does not have", "type In struct{ V int }\ntype Out struct{ V int }\ntype Ctx struct{ ID string }\n// goverter:context c\nfunc New(c Ctx) Out { return Out{} }\n\n// goverter:converter\ntype Converter interface {\n\t// goverter:default New\n\tConvert(source *In) Out\n}\n"),
	}
}

// C07: errors from custom functions always propagate with an accurate location path.
func C07(e *core.Env) int {
	rep := core.NewReport(e, "fault_enumeration")
	rep.Rule = "converters with fallible custom functions (extend with error, extend with error and context, map|FUNC with error, declared method with error result containing a fallible map function) at field / slice / map / pointer / nested / list-method / recursive positions, in the three wrapping modes (none, wrapErrors, wrapErrorsUsing with a recording package) set on the converter or the CLI; fault enumeration per generated value: the reference interpreter records every fallible call the value reaches, then EVERY single call is made to fail in turn (plus seeded multi-fault plans and the empty plan): the method must return an error that wraps the injected one; with wrapErrorsUsing the concatenation of all recorded Wrap calls must equal the target field names, indices and source map keys leading to the failing element; with wrapErrors the 'error setting field/index' prefixes must be an ordered subsequence of that location; with the empty plan error must be nil and the value equal to the reference; negative programs (fallible function below an explicit method without error result) must be rejected; non-trivial = case with >=1 single-fault execution; distinct = structural fingerprint"
	rep.Assumptions = []string{"fallible functions identify their call by the unique id of their input leaf", "which of several simultaneously failing elements is reported is not judged", "the value returned next to a non-nil error is not judged"}
	rep.Floor = tierN(e, 20, 200)
	n := tierN(e, 180, 2500)
	cases := customCorpus(e, n, "r", func(i int, o *pgen.CustomOpts) { o.Fallible = true; o.NValues = 8; o.MaxFaults = tierN(e, 30, 200) })
	cases = append(cases, c07Negatives()...)
	p, err := runPipelineOpts(e, "c07", cases, pipeOpts{Execute: true})
	if err != nil {
		rep.Inconclusive = append(rep.Inconclusive, err.Error())
		return rep.Finish()
	}
	var pos []*core.CaseRun
	for _, cr := range p.Mod.Cases {
		if neg := cr.Case.Features["negative"]; neg != "" {
			rep.Evaluations++
			rep.NonTrivial("negative|" + neg)
			if cr.Gen.Exit != 1 || strings.TrimSpace(cr.Gen.Stderr) == "" {
				rep.Violation(&core.Viol{Kind: "error_dropped_at_generation", Case: cr.Case.Name, Summary: fmt.Sprintf("%s: generation did not fail (exit %d)", neg, cr.Gen.Exit), Detail: cr.Case.Note + "\n" + cr.Gen.Stderr, Dir: cr.Dir})
			}
			continue
		}
		pos = append(pos, cr)
	}
	p.Mod.Cases = pos
	kinds := map[string]bool{"panic": true, "error_swallowed": true, "error_not_wrapped": true, "error_identity": true, "error_path": true, "unexpected_error": true, "missing_error": true, "fatal": true, "value": true}
	foldRuntime(rep, p, kinds, func(cr *core.CaseRun) bool {
		for _, me := range cr.Methods {
			if me.FaultRuns > 0 {
				return true
			}
		}
		return false
	})
	for _, cr := range pos {
		for _, me := range cr.Methods {
			rep.Count("fault_runs", me.FaultRuns)
			rep.Count("fault_sites", me.FaultSites)
			rep.Count("path_checks", me.PathChecks)
		}
		if !cr.Generated {
			rep.Violation(&core.Viol{Kind: "valid_program_rejected", Case: cr.Case.Name, Summary: "program with fallible functions was rejected: " + core.Classify(cr.Gen.Stderr) + " (" + cr.Case.Features["hooks"] + ")", Detail: cr.Gen.Stderr, Dir: cr.Dir, Tags: caseTags(cr.Case)})
		} else if !cr.Built {
			// code that does not compile cannot propagate anything
			rep.Violation(&core.Viol{Kind: "compile", Case: cr.Case.Name, Summary: "emitted code does not compile: " + compileClass(cr.BuildErr) + " (" + cr.Case.Features["hooks"] + ")", Detail: cr.BuildErr, Dir: cr.Dir, Tags: caseTags(cr.Case)})
		}
		rep.Set("wrap_modes_seen", cr.Case.Features["wrap"])
	}
	return rep.Finish()
}

func c07Negatives() []*pgen.Case {
	mk := func(name, neg, body string) *pgen.Case {
		c := pgen.RawCase("n_"+name, map[string]string{"p/input.go": "package p\n\n" + body}, nil, []string{"./p"})
		c.Feature("negative", neg)
		c.Note = body
		return c
	}
	types := "type In struct{ H HA }\ntype HA struct{ V int }\ntype Out struct{ H HB }\ntype HB struct{ V int }\n\nfunc Ext(a HA) (HB, error) { return HB{V: a.V}, nil }\n\n"
	return []*pgen.Case{
		mk("method_without_error", "fallible extend below a method without error result", types+"// goverter:converter\n// goverter:extend Ext\ntype Converter interface {\n\tConvert(source In) Out\n}\n"),
		mk("chain_without_error", "fallible extend below an explicit inner method without error result", types+"type Wrap struct{ I In }\ntype WrapOut struct{ I Out }\n\n// goverter:converter\n// goverter:extend Ext\ntype Converter interface {\n\tOuter(source Wrap) (WrapOut, error)\n\tInner(source In) Out\n}\n"),
		mk("map_func_without_error", "fallible map|FUNC in a method without error result", "type In struct{ V int }\ntype Out struct{ V int }\nfunc F(v int) (int, error) { return v, nil }\n\n// goverter:converter\ntype Converter interface {\n\t// goverter:map V V | F\n\tConvert(source In) Out\n}\n"),
		mk("enum_error_without_error", "enum @error action in a method without error result", "type A int\nconst A1 A = 1\ntype B int\nconst B1 B = 1\n\n// goverter:converter\n// goverter:enum:unknown @error\ntype Converter interface {\n\t// goverter:enum:map A1 B1\n\tConvert(source A) B\n}\n"),
		mk("delegate_without_error", "method without error result whose own pair has a fallible extend function", types+"// goverter:converter\n// goverter:extend Ext\ntype Converter interface {\n\tConvert(source HA) HB\n}\n"),
		mk("update_without_error", "fallible extend in an update method without error result", types+"// goverter:converter\n// goverter:extend Ext\ntype Converter interface {\n\t// goverter:update target\n\tConvert(source In, target *Out)\n}\n"),
	}
}

package checks

import (
	"fmt"
	"math/rand"
	"os"
	"regexp"
	"strings"
	"time"

	"verif/internal/core"
	"verif/internal/pgen"
)

func init() { Registry["C13"] = C13 }

var panicRe = regexp.MustCompile(`(?m)^(panic: |fatal error: |goroutine \d+ \[|runtime: )`)

// panicSite extracts the first goverter frame of a Go panic dump (for de-duplication and finding matchers).
func panicSite(stderr string) string {
	msg := ""
	for _, l := range strings.Split(stderr, "\n") {
		if strings.HasPrefix(l, "panic: ") || strings.HasPrefix(l, "fatal error: ") {
			msg = l
			break
		}
	}
	site := ""
	re := regexp.MustCompile(`github.com/jmattheis/goverter/([\w/]+)\.([\w\(\)\*\.\[\]]+)\(`)
	for _, l := range strings.Split(stderr, "\n") {
		if m := re.FindStringSubmatch(l); m != nil {
			site = m[1] + "." + m[2]
			break
		}
	}
	if len(msg) > 160 {
		msg = msg[:160]
	}
	return msg + " @ " + site
}

// C13: goverter never panics or hangs; every input ends in output or a diagnostic.
func C13(e *core.Env) int {
	rep := core.NewReport(e, "exploration")
	rep.Rule = "one child process of the real CLI per fuzzed input (input written to disk before the run, 30 s watchdog with SIGQUIT goroutine dump, hang confirmed by a second run with doubled deadline): (a) converters over exotic type-grammar leaves (uintptr, unsafe.Pointer, chan directions, variadic func, error, embedded interfaces, generics, recursive and mutually recursive types, zero-length arrays, blank/embedded fields) under random flags and signatures, pre-checked to compile; (b) valid converter with 1-3 grammar-plus-mutation directive lines at converter/method/-g/custom-function/variables positions; (c) random argument vectors; (d) method sets: 2-4 methods over one recursive type family in pointer / value / container / update variants with random field and flag settings, so that sibling lookup, overlapping-settings detection, recursion sub-methods and update methods meet. Oracle: exit status in {0,1}, no Go panic/fatal dump on stderr, exit 1 => non-empty stderr, exit 0 with a converter => >=1 file written; non-trivial = input reached goverter and terminated; distinct = distinct (kind, note) of the input"
	rep.Assumptions = []string{"'never hangs' is decided as 'finishes within 300x the normal duration'", "inputs that do not compile are generator bugs and dropped"}
	rep.Floor = tierN(e, 100, 1000)
	n := tierN(e, 1500, 30000)
	r := rand.New(rand.NewSource(e.Seed*2654435761 + 13))
	var cases []*pgen.Case
	for i := 0; i < n; i++ {
		name := fmt.Sprintf("f%05d", i)
		cr := rand.New(rand.NewSource(r.Int63()))
		switch {
		case i%10 < 4:
			cases = append(cases, pgen.FuzzTypeCase(cr, name))
		case i%10 < 7:
			cases = append(cases, pgen.FuzzDirectiveCase(cr, name))
		case i%10 < 9:
			cases = append(cases, pgen.FuzzMethodSetCase(cr, name))
		default:
			cases = append(cases, pgen.FuzzArgvCase(cr, name))
		}
	}
	cases = append(cases, pinnedC13()...)
	bin, err := e.BuildCLI("plain")
	if err != nil {
		rep.Inconclusive = append(rep.Inconclusive, err.Error())
		return rep.Finish()
	}
	m, err := core.NewModule(e, "c13")
	if err != nil {
		rep.Inconclusive = append(rep.Inconclusive, err.Error())
		return rep.Finish()
	}
	for _, c := range cases {
		m.Add(c)
	}
	dropped := m.VetInputs()
	rep.Extra["inputs_dropped_not_compiling"] = len(dropped)
	if len(dropped) > 0 {
		k := len(dropped)
		if k > 5 {
			k = 5
		}
		rep.Extra["inputs_dropped_examples"] = dropped[:k]
	}
	m.GenTimeout = 30 * time.Second
	m.Generate(bin)
	vanished := 0
	for _, cr := range m.Cases {
		c := cr.Case
		rep.Evaluations++
		kind := c.Features["fuzz"]
		g := cr.Gen
		if _, serr := os.Stat(cr.Dir); serr != nil {
			// the scratch tree was removed under the running check (environment, not goverter): nothing to judge
			if vanished == 0 {
				rep.Inconclusive = append(rep.Inconclusive, "scratch directory "+cr.Dir+" vanished during the run: "+serr.Error())
			}
			vanished++
			continue
		}
		tags := append(caseTags(c), "fuzz:"+kind)
		mk := func(k, sum string) *core.Viol {
			return &core.Viol{Kind: k, Case: c.Name, Summary: sum, Detail: fmt.Sprintf("input: %s\nargs: %v\nexit=%d signal=%s timeout=%v\nstderr:\n%s", c.Note, g.Args, g.Exit, g.Signal, g.TimedOut, head(g.Stderr, 4000)), Dir: cr.Dir, Tags: tags}
		}
		if g.TimedOut {
			// confirm with a doubled deadline
			again := core.RunCmd(bin, g.Args[1:], core.RunOpts{Dir: cr.Dir, Env: e.GoEnv(), Timeout: 60 * time.Second})
			if again.TimedOut {
				v := mk("hang", "goverter did not terminate within 60 s: "+frameOf(again.Dump))
				v.Detail += "\n\ndump:\n" + head(again.Dump, 6000)
				rep.Violation(v)
			} else {
				rep.Count("slow_but_terminated", 1)
			}
			continue
		}
		rep.Set("exit_codes", fmt.Sprint(g.Exit))
		rep.Set("kinds", kind)
		if panicRe.MatchString(g.Stderr) || g.Exit == 2 || g.Signal != "" {
			rep.Violation(mk("panic", "goverter crashed: "+panicSite(g.Stderr)))
			continue
		}
		if g.Exit != 0 && g.Exit != 1 {
			rep.Violation(mk("exit", fmt.Sprintf("exit status %d", g.Exit)))
			continue
		}
		if g.Exit == 1 {
			rep.Set("diagnostic_classes", core.Classify(g.Stderr))
			if strings.TrimSpace(g.Stderr) == "" {
				rep.Violation(mk("silent_failure", "exit status 1 without a diagnostic"))
				continue
			}
			if kind != "argv" && !namesDeclaration(g.Stderr) {
				rep.Violation(mk("diagnostic", "diagnostic does not name the offending declaration: "+core.Classify(g.Stderr)+": "+firstLine(g.Stderr)))
				continue
			}
		}
		if g.Exit == 0 && kind != "argv" && len(cr.Written) == 0 {
			rep.Violation(mk("no_output", "exit status 0 but nothing was written"))
			continue
		}
		rep.NonTrivial(kind + "|" + c.Note)
		if len(rep.Samples) < 5 && rep.Evaluations%97 == 0 {
			rep.Sample(map[string]any{"case": c.Name, "kind": kind, "input": head(c.Note, 200), "args": c.Args, "exit": g.Exit, "stderr_class": core.Classify(g.Stderr), "ms": g.Dur.Milliseconds()})
		}
	}
	if len(rep.Samples) == 0 && len(m.Cases) > 0 {
		cr := m.Cases[0]
		rep.Sample(map[string]any{"case": cr.Case.Name, "input": head(cr.Case.Note, 200), "exit": cr.Gen.Exit})
	}
	return rep.Finish()
}

func head(s string, n int) string {
	if len(s) > n {
		return s[:n]
	}
	return s
}

func frameOf(dump string) string {
	re := regexp.MustCompile(`github.com/jmattheis/goverter/([\w/]+)\.([\w\(\)\*\.]+)\(`)
	if m := re.FindStringSubmatch(dump); m != nil {
		return m[1] + "." + m[2]
	}
	return "?"
}

// namesDeclaration: the diagnostic mentions the declaring file, a qualified identifier of the input,
// or the command-line tag.
func namesDeclaration(stderr string) bool {
	for _, k := range []string{"input.go", "vcase/", "command line", "Converter", "could not load package", "failed to load package"} {
		if strings.Contains(stderr, k) {
			return true
		}
	}
	return namesCLI(stderr)
}

// pinnedC13: reproducers of the defects repaired by fix: commits (see known-findings.txt); they must keep
// ending in output or a diagnostic.
func pinnedC13() []*pgen.Case {
	mk := func(name, body string, args ...string) *pgen.Case {
		c := pgen.RawCase(name, map[string]string{"p/input.go": "package p\n\n" + body}, args, []string{"./p"})
		c.Feature("fuzz", "pinned")
		c.Note = name
		return c
	}
	return []*pgen.Case{
		mk("pin_error_type", "// goverter:converter\ntype Converter interface {\n\tM(source In) Out\n}\ntype In struct{ E error; L []error }\ntype Out struct{ E error; L []error }\n", "-g", "skipCopySameType"),
		mk("pin_uintptr", "import \"unsafe\"\n\n// goverter:converter\ntype Converter interface {\n\tM(source In) Out\n}\ntype In struct{ U uintptr; P unsafe.Pointer; Q *unsafe.Pointer }\ntype Out struct{ U uintptr; P unsafe.Pointer; Q *unsafe.Pointer }\n"),
		mk("pin_unicode_field_mismatch", "// goverter:converter\ntype Converter interface {\n\tM(source Eingabe) Ausgabe\n}\ntype Eingabe struct{ Name string; Größe string }\ntype Ausgabe struct{ Name string; Größe int }\n"),
		mk("pin_unicode_nested_mismatch", "// goverter:converter\ntype Converter interface {\n\tM(source Eingabe) Ausgabe\n}\ntype Eingabe struct{ Ä struct{ 日本語のフィールド名前 []map[string]string } }\ntype Ausgabe struct{ Ä struct{ 日本語のフィールド名前 []map[string]int } }\n"),
		mk("pin_unicode_type_names", "// goverter:converter\ntype Converter interface {\n\tM(source Größe) Maß\n}\ntype Größe struct{ Ünïcödé string }\ntype Maß struct{ Ünïcödé chan int }\n"),
		mk("pin_unsafe_update_zero", "import \"unsafe\"\n\n// goverter:converter\n// goverter:update:ignoreZeroValueField\ntype Converter interface {\n\t// goverter:update target\n\tM(source In, target *Out)\n}\ntype In struct{ U uintptr; P unsafe.Pointer; C complex128; E error; F func(); Ch chan int; A any }\ntype Out struct{ U uintptr; P unsafe.Pointer; C complex128; E error; F func(); Ch chan int; A any }\n", "-g", "skipCopySameType"),
		mk("pin_unsafe_update_zero_basic", "import \"unsafe\"\n\n// goverter:converter\n// goverter:update:ignoreZeroValueField:basic\ntype Converter interface {\n\t// goverter:update target\n\tM(source *In, target *Out)\n}\ntype In struct{ U uintptr; P unsafe.Pointer; C complex64; B bool }\ntype Out struct{ U uintptr; P unsafe.Pointer; C complex64; B bool }\n"),
		mk("pin_generic_iface", "// goverter:converter\ntype Converter[T any] interface {\n\tM(source int) int\n\tN(T) T\n}\n"),
		mk("pin_automap_dot", "// goverter:converter\ntype Converter interface {\n\t// goverter:autoMap .Name\n\tM(source In) Out\n}\ntype In struct{ Name string }\ntype Out struct{ Name string }\n"),
		mk("pin_automap_dot2", "// goverter:converter\ntype Converter interface {\n\t// goverter:autoMap .\n\tM(source In) Out\n}\ntype In struct{ Name string }\ntype Out struct{ Name string }\n"),
		mk("pin_map_dotdot", "// goverter:converter\ntype Converter interface {\n\t// goverter:map N..X X\n\tM(source In) Out\n}\ntype In struct{ N struct{ X string } }\ntype Out struct{ X string }\n"),
		mk("pin_raw_unbalanced", "// goverter:converter\n// goverter:output:raw func broken( {\ntype Converter interface {\n\tM(source int) int\n}\n"),
		mk("pin_raw_unbalanced_cli", "// goverter:converter\ntype Converter interface {\n\tM(source int) int\n}\n", "-g", "output:raw }"),
		mk("pin_name_invalid", "// goverter:converter\n// goverter:name 1Bad\ntype Converter interface {\n\tM(source int) int\n}\n"),
		mk("pin_pkgname_invalid", "// goverter:converter\n// goverter:output:package vcase/pin_pkgname_invalid/p/generated:9x\ntype Converter interface {\n\tM(source int) int\n}\n"),
		mk("pin_update_func_field", "// goverter:converter\n// goverter:skipCopySameType\ntype Converter interface {\n\t// goverter:update target\n\t// goverter:update:ignoreZeroValueField\n\tM(source struct{ F func() int; V int }, target *Out)\n}\ntype Out struct{ F func() int; V int }\n"),
		mk("pin_update_func_map", "// goverter:converter\ntype Converter interface {\n\t// goverter:update target\n\t// goverter:update:ignoreZeroValueField:nillable\n\t// goverter:map F F | Identity\n\tM(source In, target *Out)\n}\ntype In struct{ F func() int }\ntype Out struct{ F func() int }\nfunc Identity(f func() int) func() int { return f }\n"),
		mk("pin_update_map_nosource", "func Make() string { return \"x\" }\ntype In struct{ V int }\ntype Out struct{ V int; F string }\n\n// goverter:converter\ntype Converter interface {\n\t// goverter:update target\n\t// goverter:map F | Make\n\tUpdate(source In, target *Out)\n}\n"),
		mk("pin_update_map_path_nosource", "func Make() string { return \"x\" }\ntype In struct{ V int; N struct{ W string } }\ntype Out struct{ V int; F string; G string; H string }\n\n// goverter:converter\ntype Converter interface {\n\t// goverter:update target\n\t// goverter:update:ignoreZeroValueField\n\t// goverter:map V F | Make\n\t// goverter:map . G | Make\n\t// goverter:map N.W H | Make\n\tUpdate(source In, target *Out)\n\t// goverter:update target\n\t// goverter:map . F | Make\n\t// goverter:ignore G H\n\tUpdatePtr(source *In, target *Out)\n}\n"),
		mk("pin_vars_two_names", "type In struct{ V int }\ntype Out struct{ V int }\n\n// goverter:variables\nvar (\n\tA, B func(source In) Out\n)\n"),
		mk("pin_iface_embedded", "type In struct{ V int }\ntype Out struct{ V int }\ntype Other interface{ N(source Out) In }\n\n// goverter:converter\ntype Converter interface {\n\tOther\n\tM(source In) Out\n}\n"),
		mk("pin_vars_not_func", "type In struct{ V int }\n\n// goverter:variables\nvar (\n\tA int\n\tB = func(source In) In { return source }\n)\n"),
		mk("pin_selfref_slice", "// goverter:converter\ntype Converter interface {\n\tM(source T) U\n\tN(source MS) MT\n\tP(source L) K\n}\ntype T []T\ntype U []U\ntype MS map[string][]MS\ntype MT map[string][]MT\ntype L []*L\ntype K []*K\n"),
		mk("pin_selfref_mapkey", "// goverter:converter\ntype Converter interface {\n\tM(source Graph) Graph2\n\tN(source map[string]Graph) map[string]Graph\n}\ntype Graph map[*Graph]bool\ntype Graph2 map[*Graph2]bool\n"),
		mk("pin_automap_ptr_string", "// goverter:converter\ntype Converter interface {\n\t// goverter:autoMap P\n\tM(source In) Out\n}\ntype In struct{ P *string; Name string }\ntype Out struct{ Name string; Street string }\n"),
		mk("pin_automap_ptr_slice", "// goverter:converter\ntype Converter interface {\n\t// goverter:autoMap L\n\tM(source In) Out\n}\ntype In struct{ L *[]int; Name string }\ntype Out struct{ Name string; Street string }\n"),
		mk("pin_automap_ptr_nested", "// goverter:converter\ntype Converter interface {\n\t// goverter:autoMap Deep.Q\n\tM(source In) Out\n}\ntype In struct{ Deep struct{ Q *int }; Name string }\ntype Out struct{ Name string; Street string }\n"),
		mk("pin_variadic_ctx_submethod", "type Ctx struct{ Prefix string }\ntype A struct{ Name string }\ntype B struct{ Name string }\ntype Inner struct{ Items []A }\ntype InnerOut struct{ Items []B }\ntype In struct{ Inner Inner }\ntype Out struct{ Inner InnerOut }\n\n// goverter:converter\n// goverter:extend ConvItems\ntype Converter interface {\n\t// goverter:context ctx\n\tConvert(ctx Ctx, in In) Out\n}\n\n// goverter:context ctx\nfunc ConvItems(ctx Ctx, items ...A) []B {\n\tout := make([]B, 0, len(items))\n\tfor _, i := range items {\n\t\tout = append(out, B{Name: ctx.Prefix + i.Name})\n\t}\n\treturn out\n}\n"),
		mk("pin_selfref_ptr", "// goverter:converter\ntype Converter interface {\n\tM(source P) Q\n}\ntype P *P\ntype Q *Q\n"),
		mk("pin_selfref_array", "// goverter:converter\ntype Converter interface {\n\tM(source A) A\n}\ntype A [2]*A\n"),
		mk("pin_selfref_field", "// goverter:converter\ntype Converter interface {\n\tM(source In) Out\n}\ntype T []T\ntype In struct{ V T }\ntype Out struct{ V T }\n"),
		// a named struct type that occurs several times with identical source and target type under skipCopySameType
		mk("pin_skipcopy_twice", "// goverter:converter\n// goverter:skipCopySameType\ntype Converter interface {\n\tM(source In) Out\n\tN(source []In) []Out\n}\ntype Inner struct{ X int; L []int }\ntype In struct{ A Inner; B Inner; C *Inner; D []Inner }\ntype Out struct{ A Inner; B Inner; C *Inner; D []Inner }\n"),
		mk("pin_empty_type_block", "// goverter:converter\ntype ()\n\n// goverter:variables\nvar ()\n\ntype In struct{ V int }\n"),
		mk("pin_chan_temp", "// goverter:converter\n// goverter:useZeroValueOnPointerInconsistency\n// goverter:skipCopySameType\ntype Converter interface {\n\tM(source *chan int) chan int\n}\n"),
	}
}

// Package checks holds one check per property.
package checks

import (
	"fmt"
	"math/rand"
	"os"
	"path/filepath"
	"sort"
	"strings"
	"time"

	"verif/internal/core"
	"verif/internal/pgen"
)

// Check is the entry point of one property check.
type Check func(e *core.Env) int

var Registry = map[string]Check{}

func tierN(e *core.Env, quick, thorough int) int {
	if e.Tier == "thorough" {
		return thorough
	}
	return quick
}

var formats = []string{"struct", "function", "variables"}
var topKinds = []string{"", "basic", "named", "ptr", "slice", "array", "map", "struct", "nstruct", "nslice", "nmap"}

// structuralCorpus generates n structural cases with a covering spread of options.
func structuralCorpus(e *core.Env, n int, mod func(i int, o *pgen.StructOpts)) []*pgen.Case {
	r := rand.New(rand.NewSource(e.Seed*1000003 + 17))
	var cases []*pgen.Case
	for i := 0; i < n; i++ {
		o := pgen.StructOpts{
			Format:      formats[i%3],
			SamePkg:     (i/3)%4 == 1,
			SkipCopy:    (i/12)%3 == 1,
			UseZero:     (i/36)%2 == 1,
			TopKind:     topKinds[(i/2)%len(topKinds)],
			NMethods:    1 + r.Intn(3),
			Depth:       2 + r.Intn(3),
			Hostile:     r.Intn(3) == 0,
			Seed:        e.Seed*7919 + int64(i),
			PointerKeys: true,
		}
		if mod != nil {
			mod(i, &o)
		}
		cr := rand.New(rand.NewSource(e.Seed*7919 + int64(i)*104729))
		cases = append(cases, pgen.Structural(cr, fmt.Sprintf("c%05d", i), o))
	}
	return cases
}

// pipeline runs cases through goverter, compiles and executes them.
type pipeline struct {
	Coverage map[string]string
	Mod      *core.Module
	Dropped  []string
	BatchErr error
}

type pipeOpts struct {
	Cover   bool // run the cover-instrumented CLI and report goverter's statement coverage
	AltBin  map[string]string
	Race    bool
	Execute bool
	Asserts bool
	Timeout time.Duration
}

func runPipeline(e *core.Env, name string, cases []*pgen.Case, race, execute bool) (*pipeline, error) {
	return runPipelineOpts(e, name, cases, pipeOpts{Race: race, Execute: execute})
}

func runPipelineOpts(e *core.Env, name string, cases []*pgen.Case, po pipeOpts) (*pipeline, error) {
	race, execute := po.Race, po.Execute
	variant := "plain"
	if po.Cover {
		variant = "cover"
	}
	bin, err := e.BuildCLI(variant)
	if err != nil {
		return nil, err
	}
	m, err := core.NewModule(e, name)
	if err != nil {
		return nil, err
	}
	if po.Cover {
		m.CoverDir = filepath.Join(e.Scratch, "cov-"+name)
		os.MkdirAll(m.CoverDir, 0o755)
	}
	for _, c := range cases {
		if _, err := m.Add(c); err != nil {
			return nil, err
		}
	}
	m.Asserts = po.Asserts
	m.AltBin = po.AltBin
	p := &pipeline{Mod: m}
	p.Dropped = m.VetInputs()
	m.Generate(bin)
	if po.Cover {
		p.Coverage = core.CoverPercent(e, m.CoverDir)
	}
	m.WriteGlue()
	m.Build(race)
	if m.ModuleBuildErr != "" {
		return p, fmt.Errorf("scratch module does not build (harness fault): %s", firstLine(m.ModuleBuildErr))
	}
	if execute {
		timeout := 10 * time.Minute
		if po.Timeout > 0 {
			timeout = po.Timeout
		}
		p.BatchErr = m.RunBatch(race, timeout)
	}
	return p, nil
}

func featureString(c *pgen.Case) string {
	var ks []string
	for k, v := range c.Features {
		ks = append(ks, k+"="+v)
	}
	sort.Strings(ks)
	return strings.Join(ks, ",")
}

// kindsOf collects the constructor kinds of all method signatures of a case.
func kindsOf(c *pgen.Case) map[string]bool {
	ks := map[string]bool{}
	for _, cv := range c.Convs {
		for _, m := range cv.Methods {
			for _, p := range m.Params {
				p.T.Kinds(ks)
			}
			if m.Result != nil {
				m.Result.Kinds(ks)
			}
		}
	}
	return ks
}

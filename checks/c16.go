package checks

import (
	"fmt"
	"os"
	"path/filepath"
	"sort"
	"strings"
	"time"

	"verif/internal/core"
)

func init() { Registry["C16"] = C16 }

// genRun is one observed CLI run: exit, normalised stderr and the output files found afterwards.
type genRun struct {
	Exit   int
	Stdout string
	Stderr string
	Files  map[string]string // relative path -> content of every file that differs from / is new against `before`
	Raw    core.CLIResult
}

// runGen runs the CLI in dir and collects the files written (relative to root).
func runGen(e *core.Env, bin, root, procDir string, args []string, env []string) genRun {
	before := snapshotFiles(root)
	cli := core.RunCmd(bin, args, core.RunOpts{Dir: procDir, Env: append(e.GoEnv(), env...), Timeout: 2 * time.Minute})
	after := snapshotFiles(root)
	gr := genRun{Exit: cli.Exit, Stdout: cli.Stdout, Raw: cli, Files: map[string]string{}}
	gr.Stderr = strings.ReplaceAll(cli.Stderr, root, "@ROOT")
	for p, b := range after {
		if ob, ok := before[p]; !ok || ob != b {
			gr.Files[p] = b
		}
	}
	return gr
}

func snapshotFiles(root string) map[string]string {
	out := map[string]string{}
	filepath.Walk(root, func(p string, info os.FileInfo, err error) error {
		if err != nil || info.IsDir() {
			return nil
		}
		b, err := os.ReadFile(p)
		if err == nil {
			rel, _ := filepath.Rel(root, p)
			out[rel] = string(b)
		}
		return nil
	})
	return out
}

// histProgram renders the input files of a regeneration scenario in version v (1 = older types, 2 = current).
// layout: default samepkg sharedfile twofiles variables
func histProgram(layout string, v int, constraint string) (files map[string]string, outputs []string) {
	extra := ""
	extraT := ""
	if v == 2 {
		extra = "; Added int; Renamed string"
		extraT = "; Added int; Renamed string"
	} else {
		extra = "; Old string"
		extraT = "; Old string"
	}
	types := fmt.Sprintf("type In struct{ V int; Inner InnerIn%s }\ntype InnerIn struct{ W string }\ntype Out struct{ V int; Inner InnerOut%s }\ntype InnerOut struct{ W string }\n", extra, extraT)
	files = map[string]string{}
	guard := ""
	if constraint != "" {
		guard = "//go:build " + constraint + "\n\n"
	}
	switch layout {
	case "default":
		files["p/input.go"] = "package p\n\n" + types + "\n// goverter:converter\ntype Converter interface {\n\tConvert(source In) Out\n}\n"
		// a user file under the same constraint that uses the not-yet-generated implementation
		files["use/use.go"] = guard + "package use\n\nimport (\n\t\"vcase/HIST/p\"\n\t\"vcase/HIST/p/generated\"\n)\n\nvar C p.Converter = &generated.ConverterImpl{}\n"
		outputs = []string{"p/generated/generated.go"}
	case "samepkg":
		files["p/input.go"] = "package p\n\n" + types + "\n// goverter:converter\n// goverter:output:file ./zz_gen.go\ntype Converter interface {\n\tConvert(source In) Out\n}\n"
		files["p/use.go"] = guard + "package p\n\nvar C Converter = &ConverterImpl{}\n"
		outputs = []string{"p/zz_gen.go"}
	case "sharedfile":
		files["p/input.go"] = "package p\n\n" + types + "\n// goverter:converter\ntype Converter interface {\n\tConvert(source In) Out\n}\n\n// goverter:converter\ntype Second interface {\n\tConvertInner(source InnerIn) InnerOut\n}\n"
		outputs = []string{"p/generated/generated.go"}
	case "twofiles":
		files["p/input.go"] = "package p\n\n" + types + "\n// goverter:converter\ntype Converter interface {\n\tConvert(source In) Out\n}\n\n// goverter:converter\n// goverter:output:file ./generated/second.go\ntype Second interface {\n\tConvertAgain(source In) Out\n}\n"
		outputs = []string{"p/generated/generated.go", "p/generated/second.go"}
	case "variables":
		files["p/input.go"] = "package p\n\n" + types + "\n// goverter:variables\nvar (\n\tConvert func(source In) Out\n)\n"
		files["q/input.go"] = "package q\n\n" + types + "\n// goverter:converter\ntype Converter interface {\n\tConvert(source In) Out\n}\n"
		outputs = []string{"p/input.gen.go", "q/generated/generated.go"}
	}
	return files, outputs
}

// histProgramTagged adds the layout "taggedinput": the converter is declared in a file that is only part of the package
// under the first build tag (so both package loads must pass the tags).
func histProgramTagged(layout string, v int, constraint, tag string) (map[string]string, []string) {
	if layout != "taggedinput" {
		return histProgram(layout, v, constraint)
	}
	files, outputs := histProgram("default", v, constraint)
	delete(files, "use/use.go")
	body := files["p/input.go"]
	i := strings.Index(body, "// goverter:converter")
	files["p/input.go"] = body[:i]
	files["p/conv_tagged.go"] = "//go:build " + tag + "\n\npackage p\n\n" + body[i:]
	return files, outputs
}

// checkHeader is the header monitor: line 1 marker, line 2 constraint (iff configured), blank, package clause.
func checkHeader(path, content, constraint string) string {
	ff := core.Analyze(path, []byte(content))
	lines := strings.Split(content, "\n")
	if !ff.HeaderOK {
		return "first line is not the 'Code generated ... DO NOT EDIT.' header: " + head(lines[0], 80)
	}
	if constraint == "" {
		if ff.HasConstr {
			return "constraint line present although the constraint is configured empty"
		}
		if len(lines) < 3 || lines[1] != "" || !strings.HasPrefix(lines[2], "package ") {
			return "header is not followed by a blank line and the package clause"
		}
		return ""
	}
	if !ff.HasConstr {
		return "second line is not a //go:build line: " + head(lines[1], 80)
	}
	if ff.Constraint != constraint {
		return fmt.Sprintf("constraint %q, want %q", ff.Constraint, constraint)
	}
	if len(lines) < 4 || lines[2] != "" || !strings.HasPrefix(lines[3], "package ") {
		return "constraint line is not followed by a blank line and the package clause"
	}
	return ""
}

type tagPair struct{ tags, constraint string }

// C16: outputs carry the build constraint; stale output never blocks regeneration.
func C16(e *core.Env) int {
	rep := core.NewReport(e, "exploration")
	rep.Rule = "regeneration histories through the real CLI: layouts {default ./generated with a guarded user file using the implementation, output into the interface's own package with such a user file, two converters sharing one file, two files in one package, variables block + interface} x tag pairs {default, goverter,extra/!goverter, extra,goverter/!goverter, foo/!foo, a,b/!a, a,b/!b, empty constraint} x prior output state {absent, current, generated from an older version of the types, longer than the new output, truncated after the header, syntactically broken with header}: the final run must exit 0 and write bytes equal to a clean-tree generation, and every emitted file must start with the header line, the //go:build line (absent iff configured empty), a blank line and the package clause; non-trivial = history whose prior state was non-absent and whose final bytes were compared; distinct = (layout, tag pair, prior state)"
	rep.Assumptions = []string{"complementary tag pairs only (the guarantee needs them)", "broken previous output without the constraint line is outside the guarantee"}
	rep.Floor = tierN(e, 10, 60)
	bin, err := e.BuildCLI("plain")
	if err != nil {
		rep.Inconclusive = append(rep.Inconclusive, err.Error())
		return rep.Finish()
	}
	root := filepath.Join(e.Scratch, "c16")
	os.MkdirAll(root, 0o755)
	os.WriteFile(filepath.Join(root, "go.mod"), []byte("module vcase\n\ngo 1.22\n"), 0o644)
	layouts := []string{"default", "samepkg", "sharedfile", "twofiles", "variables", "taggedinput"}
	pairs := []tagPair{{"", ""}, {"goverter,extra", "!goverter"}, {"extra,goverter", "!goverter"}, {"foo", "!foo"}, {"a,b", "!a"}, {"a,b", "!b"}, {"goverter", "EMPTY"}, {"gen", "EMPTY"}, {"NONE", "!goverter"}, {"NONE", "!foo"}, {"goverter", "linux && !goverter"}, {"b", "!b"}, {"dbg", "go1.18 && !dbg"}, {"goverter_gen", "!goverter_gen"}, {"my.tag,x_1", "!my.tag"}}
	priors := []string{"absent", "current", "older", "longer", "truncated", "broken"}
	// the documented way to extend goverter is a main package that calls cli.Run with RunOpts: such a binary must
	// behave like the stock one
	customBin, cerr := e.BuildHelper("customcli")
	if cerr != nil {
		rep.Inconclusive = append(rep.Inconclusive, "custom CLI: "+cerr.Error())
		return rep.Finish()
	}
	type hist struct {
		layout string
		pair   tagPair
		prior  string
		custom bool
	}
	var hs []hist
	for _, l := range layouts {
		for _, p := range pairs {
			for _, pr := range priors {
				hs = append(hs, hist{l, p, pr, false})
			}
		}
	}
	for _, l := range []string{"default", "samepkg", "variables"} {
		for _, p := range []tagPair{{"", ""}, {"foo", "!foo"}} {
			for _, pr := range []string{"current", "older", "broken"} {
				hs = append(hs, hist{l, p, pr, true})
			}
		}
	}
	type result struct {
		viols []*core.Viol
		nt    string
		samp  map[string]any
		files int
	}
	results := make([]result, len(hs))
	core.Parallel(len(hs), func(i int) {
		h := hs[i]
		res := &results[i]
		name := fmt.Sprintf("h%03d", i)
		bin := bin
		if h.custom {
			bin = customBin
		}
		constraint := "!goverter"
		var args []string
		switch {
		case h.pair.tags == "NONE":
			// no build tags at all: the configured constraint must still be written
			constraint = h.pair.constraint
			args = []string{"gen", "-build-tags", "", "-output-constraint", h.pair.constraint, "./..."}
		case h.pair.constraint == "EMPTY":
			constraint = ""
			args = []string{"gen", "-build-tags", h.pair.tags, "-output-constraint", "", "./..."}
		case h.pair.tags == "":
			args = []string{"gen", "./..."}
		default:
			constraint = h.pair.constraint
			args = []string{"gen", "-build-tags", h.pair.tags, "-output-constraint", h.pair.constraint, "./..."}
		}
		fix := func(files map[string]string, nm string) map[string]string {
			out := map[string]string{}
			for p, b := range files {
				out[p] = strings.ReplaceAll(b, "vcase/HIST", "vcase/"+nm)
			}
			return out
		}
		bad := func(kind, sum, det string, dir string) {
			res.viols = append(res.viols, &core.Viol{Kind: kind, Case: name, Summary: sum, Detail: fmt.Sprintf("layout=%s tags=%q constraint=%q prior=%s args=%v\n%s", h.layout, h.pair.tags, constraint, h.prior, args, det), Dir: dir,
				Tags: []string{"layout:" + h.layout, "prior:" + h.prior}})
		}
		// clean-tree reference generation of version 2
		cleanDir := filepath.Join(root, name+"c")
		firstTag := strings.Split(h.pair.tags, ",")[0]
		if h.pair.tags == "" {
			firstTag = "goverter"
		}
		if h.layout == "taggedinput" && h.pair.tags == "NONE" {
			return // an input guarded by a tag cannot be seen without tags
		}
		v2, outputs := histProgramTagged(h.layout, 2, constraint, firstTag)
		if h.pair.tags == "NONE" || constraint == "" {
			// user files that reference not-yet-generated code need the complementary tag pair
			for p := range v2 {
				if strings.HasSuffix(p, "use.go") {
					delete(v2, p)
				}
			}
		}
		writeFiles(cleanDir, fix(v2, name+"c"))
		clean := runGen(e, bin, cleanDir, cleanDir, args, nil)
		if clean.Exit != 0 {
			bad("clean_generation_failed", "clean-tree generation failed: "+core.Classify(clean.Stderr)+": "+firstLine(clean.Stderr), clean.Stderr, cleanDir)
			return
		}
		for p, b := range clean.Files {
			res.files++
			if msg := checkHeader(p, b, constraint); msg != "" {
				bad("header", fmt.Sprintf("emitted file %s: %s", filepath.Base(p), msg), head(b, 300), cleanDir)
			}
		}
		for _, o := range outputs {
			if _, ok := clean.Files[o]; !ok {
				bad("missing_output", "clean generation did not write "+o, fmt.Sprint(keysOf(clean.Files)), cleanDir)
			}
		}
		if h.prior == "absent" {
			res.nt = "absent|" + h.layout + "|" + h.pair.tags + "|" + constraint
			return
		}
		if constraint == "" || h.pair.tags == "NONE" {
			return // regeneration over broken output is not guaranteed without a constraint
		}
		// history
		dir := filepath.Join(root, name)
		switch h.prior {
		case "older":
			v1, _ := histProgramTagged(h.layout, 1, constraint, firstTag)
			writeFiles(dir, fix(v1, name))
			first := runGen(e, bin, dir, dir, args, nil)
			if first.Exit != 0 {
				bad("first_generation_failed", "generation of the older version failed: "+firstLine(first.Stderr), first.Stderr, dir)
				return
			}
			writeFiles(dir, fix(v2, name))
		default:
			writeFiles(dir, fix(v2, name))
			first := runGen(e, bin, dir, dir, args, nil)
			if first.Exit != 0 {
				bad("first_generation_failed", "first generation failed: "+firstLine(first.Stderr), first.Stderr, dir)
				return
			}
			for p, b := range first.Files {
				full := filepath.Join(dir, p)
				switch h.prior {
				case "truncated":
					lines := strings.SplitAfter(b, "\n")
					keep := 6
					if keep > len(lines) {
						keep = len(lines)
					}
					os.WriteFile(full, []byte(strings.Join(lines[:keep], "")+"func (c *Conv"), 0o644)
				case "longer":
					os.WriteFile(full, []byte(b+strings.Repeat("// left over from a longer previous output\nvar _ = 0\n", 40)), 0o644)
				case "broken":
					lines := strings.SplitAfter(b, "\n")
					os.WriteFile(full, []byte(strings.Join(lines[:2], "")+"\npackage !!! this is not go {{{\n"), 0o644)
				}
			}
		}
		// make sure the rewritten outputs differ in mtime-independent ways only; now regenerate
		final := runGen(e, bin, dir, dir, args, nil)
		if final.Exit != 0 {
			bad("regeneration_blocked", fmt.Sprintf("regeneration over %s previous output failed (%s)", h.prior, core.Classify(final.Stderr)), final.Stderr, dir)
			return
		}
		now := snapshotFiles(dir)
		for p, want := range clean.Files {
			got, ok := now[p]
			want = strings.ReplaceAll(want, "vcase/"+name+"c", "vcase/"+name)
			if !ok {
				bad("missing_output", "regeneration did not leave "+p, "", dir)
			} else if got != want {
				bad("differs_from_clean", fmt.Sprintf("regeneration over %s output differs from clean-tree generation (%s)", h.prior, filepath.Base(p)), "got:\n"+head(got, 600)+"\nwant:\n"+head(want, 600), dir)
			}
		}
		res.nt = h.prior + "|" + h.layout + "|" + h.pair.tags + "|" + constraint + fmt.Sprintf("|customcli=%v", h.custom)
		if i%11 == 0 {
			res.samp = map[string]any{"layout": h.layout, "build_tags": h.pair.tags, "constraint": constraint, "prior": h.prior, "args": args, "outputs": outputs, "final_exit": final.Exit}
		}
	})
	for i := range results {
		rep.Evaluations++
		for _, v := range results[i].viols {
			rep.Violation(v)
		}
		if results[i].nt != "" {
			rep.NonTrivial(results[i].nt)
		}
		if results[i].samp != nil {
			rep.Sample(results[i].samp)
		}
		rep.Count("files_header_checked", results[i].files)
	}
	rep.Exhaustive = true
	c16Chained(e, rep, bin, root)
	return rep.Finish()
}

func keysOf(m map[string]string) []string {
	var k []string
	for x := range m {
		k = append(k, x)
	}
	sort.Strings(k)
	return k
}

// c16Chained: a converter whose package uses the generated code of another converter. The inner one is generated with
// the defaults (its output carries //go:build !goverter); the outer one is generated with other tag settings, among
// them "no tags, no constraint": then every file must be loaded, by both package loads.
func c16Chained(e *core.Env, rep *core.Report, bin, root string) {
	type variant struct {
		name string
		args []string
		want string // constraint expected in the outer output ("" = none)
	}
	vs := []variant{
		{"none", []string{"-build-tags", "", "-output-constraint", ""}, ""},
		{"other", []string{"-build-tags", "outer", "-output-constraint", "!outer"}, "!outer"},
		{"noconstraint", []string{"-build-tags", "outer", "-output-constraint", ""}, ""},
	}
	for _, v := range vs {
		name := "chain_" + v.name
		dir := filepath.Join(root, name)
		writeFiles(dir, map[string]string{
			"inner/input.go": "package inner\n\ntype In struct{ V int }\ntype Out struct{ V int }\n\n// goverter:converter\ntype Conv interface {\n\tConvert(source In) Out\n}\n",
			"outer/input.go": "package outer\n\nimport (\n\t\"vcase/" + name + "/inner\"\n\t\"vcase/" + name + "/inner/generated\"\n)\n\ntype W struct{ I inner.In }\ntype WT struct{ I inner.Out }\n\nvar impl = &generated.ConvImpl{}\n\n// Use converts with the generated inner converter.\nfunc Use(i inner.In) inner.Out { return impl.Convert(i) }\n\n// goverter:converter\n// goverter:extend Use\ntype Outer interface {\n\tConvert(source W) WT\n}\n",
		})
		rep.Evaluations++
		if gr := runGen(e, bin, dir, dir, []string{"gen", "./inner"}, nil); gr.Exit != 0 {
			rep.Inconclusive = append(rep.Inconclusive, "chained scenario: generating the inner converter failed: "+head(gr.Stderr, 300))
			continue
		}
		ok := true
		for run := 1; run <= 2 && ok; run++ {
			args := append(append([]string{"gen"}, v.args...), "./outer")
			gr := runGen(e, bin, dir, dir, args, nil)
			if gr.Exit != 0 {
				rep.Violation(&core.Viol{Kind: "chained_generation_failed", Case: name, Summary: fmt.Sprintf("run %d of the outer converter (%s) failed although every file it needs is part of the build it was asked for: %s", run, strings.Join(v.args, " "), core.Classify(gr.Stderr)), Detail: fmt.Sprintf("args=%v\n%s", args, gr.Stderr), Dir: dir, Tags: []string{"layout:chained"}})
				ok = false
				break
			}
			b, _ := os.ReadFile(filepath.Join(dir, "outer", "generated", "generated.go"))
			lines := strings.Split(string(b), "\n")
			got := ""
			if len(lines) > 1 && strings.HasPrefix(lines[1], "//go:build ") {
				got = strings.TrimPrefix(lines[1], "//go:build ")
			}
			if got != v.want {
				rep.Violation(&core.Viol{Kind: "header", Case: name, Summary: fmt.Sprintf("outer output has constraint %q, want %q", got, v.want), Detail: string(b), Dir: dir, Tags: []string{"layout:chained"}})
				ok = false
			}
		}
		if ok {
			rep.NonTrivial("chained|" + v.name)
		}
	}
}

package checks

import (
	"fmt"
	"os"
	"path/filepath"
	"regexp"
	"sort"
	"strings"

	"verif/internal/core"
)

func init() { Registry["C12"] = C12 }

// c12Probe describes how the effective value of one inheritable setting is observed at the
// top-level position of a method.
type c12Probe struct {
	// settingFirst: the probed setting is written before the probe's other method lines (settings apply in source order)
	settingFirst bool
	key          string
	values       []string // the non-absent spellings; for booleans: bare yes no
	isBool       bool
	dflt         string // effective value when absent everywhere ("no"/"yes" for booleans, "" for valued)
	types        string // type declarations, %[1]s = suffix
	method       string // method declaration, %[1]s = suffix, %[2]s = method name
	mlines       []string
	clines       []string // extra converter lines
	funcs        string   // custom functions (once per file)
	kind         string   // success | text
	// expectation from the effective value
	succeeds func(eff string) bool     // kind success
	marker   func(eff string) []string // kind text: substrings that must be present in the method body
	absent   func(eff string) []string // kind text: substrings that must NOT be present
	opposite func(eff string) string   // the explicit spelling siblings get
	// deep: the probe position is a nested named/enum pair. It is converted inline when the method's value is `inline`,
	// otherwise by a generated sub-method that is documented (and pinned) to take the converter-level value.
	deep   bool
	inline func(eff string) bool
}

func boolOn(v string) bool { return v == "bare" || v == "yes" }

func boolProbeOpposite(eff string) string {
	if boolOn(eff) {
		return "no"
	}
	return "yes"
}

func successProbe(key, types, method string, clines []string, funcs string, invert bool, dflt string) c12Probe {
	return c12Probe{key: key, isBool: true, values: []string{"bare", "yes", "no"}, dflt: dflt, types: types, method: method, clines: clines, funcs: funcs, kind: "success",
		succeeds: func(eff string) bool { return boolOn(eff) != invert }, opposite: boolProbeOpposite}
}

func deepProbe(p c12Probe, inline func(eff string) bool) c12Probe {
	p.deep, p.inline = true, inline
	return p
}

func textProbe(key, types, method string, mlines, clines []string, funcs string, on []string) c12Probe {
	return c12Probe{key: key, isBool: true, values: []string{"bare", "yes", "no"}, dflt: "no", types: types, method: method, mlines: mlines, clines: clines, funcs: funcs, kind: "text",
		marker: func(eff string) []string {
			if boolOn(eff) {
				return on
			}
			return nil
		},
		absent: func(eff string) []string {
			if !boolOn(eff) {
				return on
			}
			return nil
		}, opposite: boolProbeOpposite}
}

func c12Probes(caseRoot string) []c12Probe {
	ps := []c12Probe{
		successProbe("ignoreUnexported", "type In%[1]s struct{ V int }\ntype Out%[1]s struct{ V int; hidden int }\n", "%[2]s(source In%[1]s) Out%[1]s", nil, "", false, "no"),
		successProbe("ignoreMissing", "type In%[1]s struct{ V int }\ntype Out%[1]s struct{ V int; Extra int }\n", "%[2]s(source In%[1]s) Out%[1]s", nil, "", false, "no"),
		successProbe("matchIgnoreCase", "type In%[1]s struct{ VALUE int }\ntype Out%[1]s struct{ Value int }\n", "%[2]s(source In%[1]s) Out%[1]s", nil, "", false, "no"),
		successProbe("useZeroValueOnPointerInconsistency", "type In%[1]s struct{ V *int }\ntype Out%[1]s struct{ V int }\n", "%[2]s(source In%[1]s) Out%[1]s", nil, "", false, "no"),
		successProbe("skipCopySameType", "type In%[1]s struct{ C chan int }\ntype Out%[1]s struct{ C chan int }\n", "%[2]s(source In%[1]s) Out%[1]s", nil, "", false, "no"),
		successProbe("useUnderlyingTypeMethods", "type MyStr%[1]s string\ntype MyInt%[1]s int\ntype In%[1]s struct{ V MyStr%[1]s }\ntype Out%[1]s struct{ V MyInt%[1]s }\n", "%[2]s(source In%[1]s) Out%[1]s",
			[]string{"extend StrToInt"}, "func StrToInt(s string) int { return len(s) }\n", false, "no"),
		successProbe("enum", "type KA%[1]s int\nconst A1%[1]s KA%[1]s = 1\ntype KB%[1]s int\nconst B1%[1]s KB%[1]s = 1\n", "%[2]s(source KA%[1]s) KB%[1]s", nil, "", true, "yes"),
		// the same settings observed one level deeper, at a field of the method's own struct: the value in effect is still the method's
		deepProbe(successProbe("enum", "type KA%[1]s int\nconst A1%[1]s KA%[1]s = 1\ntype KB%[1]s int\nconst B1%[1]s KB%[1]s = 1\ntype In%[1]s struct{ K KA%[1]s }\ntype Out%[1]s struct{ K KB%[1]s }\n", "%[2]s(source In%[1]s) Out%[1]s", nil, "", true, "yes"),
			func(eff string) bool { return !boolOn(eff) }),
		deepProbe(successProbe("skipCopySameType", "type Inner%[1]s struct{ C chan int }\ntype In%[1]s struct{ N Inner%[1]s }\ntype Out%[1]s struct{ N Inner%[1]s }\n", "%[2]s(source In%[1]s) Out%[1]s", nil, "", false, "no"),
			func(eff string) bool { return boolOn(eff) }),
		// the shorthand update:ignoreZeroValueField must switch all three categories on AND off
		textProbe("update:ignoreZeroValueField", "type In%[1]s struct{ S struct{ X int } }\ntype Out%[1]s struct{ S struct{ X int } }\n", "%[2]s(source In%[1]s, target *Out%[1]s)", []string{"update target"}, nil, "", []string{"source.S != struct"}),
		textProbe("update:ignoreZeroValueField", "type In%[1]s struct{ C chan int }\ntype Out%[1]s struct{ C chan int }\n", "%[2]s(source In%[1]s, target *Out%[1]s)", []string{"update target"}, []string{"skipCopySameType"}, "", []string{"source.C != nil"}),
		textProbe("wrapErrors", "type In%[1]s struct{ S string }\ntype Out%[1]s struct{ S string }\n", "%[2]s(source In%[1]s) (Out%[1]s, error)", nil, []string{"extend SE"},
			"func SE(s string) (string, error) { return s, nil }\n", []string{"error setting field S"}),
		textProbe("update:ignoreZeroValueField", "type In%[1]s struct{ B int }\ntype Out%[1]s struct{ B int }\n", "%[2]s(source In%[1]s, target *Out%[1]s)", []string{"update target"}, nil, "", []string{"source.B != 0"}),
		textProbe("update:ignoreZeroValueField:basic", "type In%[1]s struct{ B int }\ntype Out%[1]s struct{ B int }\n", "%[2]s(source In%[1]s, target *Out%[1]s)", []string{"update target"}, nil, "", []string{"source.B != 0"}),
		textProbe("update:ignoreZeroValueField:struct", "type In%[1]s struct{ S struct{ X int } }\ntype Out%[1]s struct{ S struct{ X int } }\n", "%[2]s(source In%[1]s, target *Out%[1]s)", []string{"update target"}, nil, "", []string{"source.S != struct"}),
		textProbe("update:ignoreZeroValueField:nillable", "type In%[1]s struct{ C chan int }\ntype Out%[1]s struct{ C chan int }\n", "%[2]s(source In%[1]s, target *Out%[1]s)", []string{"update target"}, []string{"skipCopySameType"}, "", []string{"source.C != nil"}),
	}
	// valued settings
	ps = append(ps, c12Probe{key: "arg:context:regex", values: []string{"^ctx", "^zzz"}, dflt: "",
		types: "type In%[1]s struct{ V int }\ntype Out%[1]s struct{ V int }\ntype CtxT%[1]s struct{}\n", method: "%[2]s(source In%[1]s, ctxA CtxT%[1]s) Out%[1]s", kind: "success",
		succeeds: func(eff string) bool { return eff == "^ctx" },
		opposite: func(eff string) string {
			if eff == "^ctx" {
				return "^zzz"
			}
			return "^ctx"
		}})
	// the same setting observed through the context parameter of a map function (the method-level value has to reach it)
	ps = append(ps, c12Probe{key: "arg:context:regex", values: []string{"^ctx", "^zzz"}, dflt: "", settingFirst: true,
		types:  "type In%[1]s struct{ V int }\ntype Out%[1]s struct{ V int; X string }\ntype CtxT%[1]s struct{}\nfunc Fn%[1]s(v int, ctxB CtxT%[1]s) string { return \"\" }\n",
		method: "%[2]s(source In%[1]s, ctxA CtxT%[1]s) Out%[1]s", kind: "success", mlines: []string{"map V X | Fn%[1]s"},
		succeeds: func(eff string) bool { return eff == "^ctx" },
		opposite: func(eff string) string {
			if eff == "^ctx" {
				return "^zzz"
			}
			return "^ctx"
		}})
	ps = append(ps, c12Probe{key: "enum:unknown", values: []string{"@panic", "@ignore"}, dflt: "",
		types: "type KA%[1]s int\nconst Member%[1]s KA%[1]s = 1\ntype KB%[1]s int\nconst MemberX%[1]s KB%[1]s = 1\n", method: "%[2]s(source KA%[1]s) KB%[1]s", kind: "text",
		mlines: []string{"enum:map Member%[1]s MemberX%[1]s"},
		marker: func(eff string) []string {
			switch eff {
			case "@panic":
				return []string{"panic(fmt.Sprintf(\"unexpected enum element"}
			case "@ignore":
				return []string{"// ignored"}
			}
			return []string{"<must fail>"}
		},
		absent: func(eff string) []string {
			if eff == "@ignore" {
				return []string{"panic("}
			}
			return nil
		},
		opposite: func(eff string) string {
			if eff == "@panic" {
				return "@ignore"
			}
			return "@panic"
		}})
	ps = append(ps, c12Probe{key: "wrapErrorsUsing", values: []string{caseRoot + "/ea", caseRoot + "/eb"}, dflt: "",
		types: "type In%[1]s struct{ S string }\ntype Out%[1]s struct{ S string }\n", method: "%[2]s(source In%[1]s) (Out%[1]s, error)", clines: []string{"extend SE"},
		funcs: "func SE(s string) (string, error) { return s, nil }\n", kind: "text",
		marker: func(eff string) []string {
			switch {
			case strings.HasSuffix(eff, "/ea"):
				return []string{"ea.Wrap(", "ea.Field(\"S\")"}
			case strings.HasSuffix(eff, "/eb"):
				return []string{"eb.Wrap(", "eb.Field(\"S\")"}
			}
			return nil
		},
		absent: func(eff string) []string {
			switch {
			case strings.HasSuffix(eff, "/ea"):
				return []string{"eb.Wrap("}
			case strings.HasSuffix(eff, "/eb"):
				return []string{"ea.Wrap("}
			}
			return []string{"ea.Wrap(", "eb.Wrap("}
		},
		opposite: func(eff string) string {
			if strings.HasSuffix(eff, "/ea") {
				return caseRoot + "/eb"
			}
			return caseRoot + "/ea"
		}})
	return ps
}

const wrapPkg = "package %s\n\ntype E struct{ K, V string }\n\nfunc Wrap(err error, p ...E) error { return err }\nfunc Field(n string) E { return E{\"f\", n} }\nfunc Index(i int) E { return E{\"i\", \"\"} }\nfunc Key(k any) E { return E{\"k\", \"\"} }\n"

func settingLine(key, v string) string {
	switch v {
	case "":
		return ""
	case "bare":
		return key
	}
	return key + " " + v
}

// resolve is the documented resolution: method, else converter, else CLI, else default.
func resolve(cli, conv, meth, dflt string) string {
	for _, v := range []string{meth, conv, cli} {
		if v != "" {
			return v
		}
	}
	return dflt
}

var funcBodyRe = regexp.MustCompile(`(?s)func (\([^)]*\) )?(\w+)\(.*?\n}\n`)

func methodBodies(src string) map[string]string {
	out := map[string]string{}
	for _, m := range funcBodyRe.FindAllStringSubmatch(src, -1) {
		out[m[2]] = m[0]
	}
	return out
}

// C12: settings resolve method > converter > CLI and are validated where written.
func C12(e *core.Env) int {
	rep := core.NewReport(e, "exploration")
	rep.Rule = "for every inheritable setting a probe program observes the value in effect at the top-level position of a method (generation success/failure for ignoreUnexported, ignoreMissing, matchIgnoreCase, useZeroValueOnPointerInconsistency, skipCopySameType, useUnderlyingTypeMethods, enum, arg:context:regex; emitted guard/wrapper/default-case for wrapErrors, wrapErrorsUsing, enum:unknown, update:ignoreZeroValueField and its three parts); ALL 4^3 cells {absent, bare, yes, no} x {CLI, converter, method} per boolean and all 3^3 placements per valued setting are run through the real CLI (CLI level alternately as -g and -global), once alone and once with a sibling method and a sibling converter that carry the opposite explicit value, and compared with the resolution model method > converter > CLI > default; invalid placements, unknown keys, malformed values and wrapErrors+wrapErrorsUsing conflicts must exit 1 with a diagnostic naming where the line was written; non-trivial = cell whose observation was compared; distinct = (setting, cell, with/without siblings)"
	rep.Assumptions = []string{"resolution model from docs/reference/define-settings.md", "method-level values are observed only at positions reachable without crossing a generated sub-method (sub-methods get converter-level values)"}
	rep.Floor = tierN(e, 200, 800)
	bin, err := e.BuildCLI("plain")
	if err != nil {
		rep.Inconclusive = append(rep.Inconclusive, err.Error())
		return rep.Finish()
	}
	root := filepath.Join(e.Scratch, "c12")
	os.MkdirAll(root, 0o755)
	os.WriteFile(filepath.Join(root, "go.mod"), []byte("module vcase\n\ngo 1.22\n"), 0o644)
	type cell struct {
		probe           c12Probe
		cli, conv, meth string
		siblings        bool
		name            string
	}
	var cells []cell
	n := 0
	allProbes := c12Probes("vcase/x")
	nProbes := len(allProbes)
	for pi := 0; pi < nProbes; pi++ {
		vals := append([]string{""}, allProbes[pi].values...)
		for _, a := range vals {
			for _, b := range vals {
				for _, c := range vals {
					for _, sib := range []bool{false, true} {
						if sib && allProbes[pi].deep {
							continue
						}
						if e.Tier != "thorough" && sib && (n+int(e.Seed))%2 == 0 {
							// quick: every cell alone, every second cell additionally with siblings
							n++
							continue
						}
						name := fmt.Sprintf("t%05d", n)
						n++
						cells = append(cells, cell{probe: allProbes[pi], cli: a, conv: b, meth: c, siblings: sib, name: name})
					}
				}
			}
		}
	}
	type result struct {
		viol *core.Viol
		nt   string
		samp map[string]any
	}
	results := make([]result, len(cells))
	core.Parallel(len(cells), func(i int) {
		c := cells[i]
		p := c.probe
		dir := filepath.Join(root, c.name)
		// valued wrapErrorsUsing values were generated with case root "x": re-root
		reroot := func(v string) string { return strings.Replace(v, "vcase/x/", "vcase/"+c.name+"/", 1) }
		cli, conv, meth := reroot(c.cli), reroot(c.conv), reroot(c.meth)
		eff := resolve(cli, conv, meth, p.dflt)
		if p.deep && !p.inline(eff) {
			// a generated sub-method converts the nested pair with the converter-level value
			eff = resolve(cli, conv, "", p.dflt)
		}
		var sb strings.Builder
		sb.WriteString("package p\n\n")
		sb.WriteString(p.funcs)
		suffixes := []string{"P"}
		if c.siblings {
			suffixes = []string{"P", "S", "O"}
		}
		for _, s := range suffixes {
			fmt.Fprintf(&sb, p.types, s)
		}
		writeConv := func(name string, lines []string, methods []string) {
			sb.WriteString("\n// goverter:converter\n")
			for _, l := range lines {
				if l != "" {
					sb.WriteString("// goverter:" + l + "\n")
				}
			}
			sb.WriteString("type " + name + " interface {\n" + strings.Join(methods, "") + "}\n")
		}
		mdecl := func(suffix, name string, value string) string {
			var m strings.Builder
			if l := settingLine(p.key, value); l != "" && p.settingFirst {
				m.WriteString("\t// goverter:" + l + "\n")
			}
			for _, l := range p.mlines {
				if strings.Contains(l, "%") {
					l = fmt.Sprintf(l, suffix)
				}
				m.WriteString("\t// goverter:" + l + "\n")
			}
			if l := settingLine(p.key, value); l != "" && !p.settingFirst {
				m.WriteString("\t// goverter:" + l + "\n")
			}
			m.WriteString("\t" + fmt.Sprintf(p.method, suffix, name) + "\n")
			return m.String()
		}
		methods := []string{mdecl("P", "Probe", meth)}
		opp := p.opposite(eff)
		opp = reroot(opp)
		if c.siblings {
			methods = append(methods, mdecl("S", "Sib", opp))
		}
		convLines := append([]string{}, p.clines...)
		convLines = append(convLines, settingLine(p.key, conv))
		writeConv("Conv", convLines, methods)
		if c.siblings {
			writeConv("Other", append(append([]string{}, p.clines...), "output:file ./generated/other.go", settingLine(p.key, opp)), []string{mdecl("O", "OtherM", "")})
		}
		files := map[string]string{"p/input.go": sb.String(), "ea/ea.go": fmt.Sprintf(wrapPkg, "ea"), "eb/eb.go": fmt.Sprintf(wrapPkg, "eb")}
		writeFiles(dir, files)
		args := []string{"gen"}
		if l := settingLine(p.key, cli); l != "" {
			flag := "-g"
			if i%2 == 1 {
				flag = "-global"
			}
			args = append(args, flag, l)
		}
		args = append(args, "./p")
		gr := runGen(e, bin, dir, dir, args, nil)
		det := func() string {
			return fmt.Sprintf("setting %s: cli=%q converter=%q method=%q => effective %q (siblings=%v, opposite=%q)\nargs=%v exit=%d\nstderr=%s\n--- input ---\n%s\n--- output ---\n%s",
				p.key, cli, conv, meth, eff, c.siblings, opp, args, gr.Exit, head(gr.Stderr, 1200), sb.String(), head(gr.Files["p/generated/generated.go"], 2500))
		}
		bad := func(kind, sum string) {
			results[i].viol = &core.Viol{Kind: kind, Case: c.name, Summary: sum, Detail: det(), Dir: dir, Tags: []string{"setting:" + p.key}}
		}
		cellKey := fmt.Sprintf("%s cli=%s conv=%s meth=%s", p.key, spell(cli), spell(conv), spell(meth))
		results[i].nt = cellKey + fmt.Sprint(c.siblings) + "|" + p.method + "|" + head(p.types, 60)
		if i%211 == 0 {
			results[i].samp = map[string]any{"setting": p.key, "cli": cli, "converter": conv, "method": meth, "effective": eff, "siblings": c.siblings, "args": args, "exit": gr.Exit}
		}
		switch p.kind {
		case "success":
			want := p.succeeds(eff)
			if !c.siblings {
				if (gr.Exit == 0) != want {
					bad("precedence", fmt.Sprintf("%s: effective value %q expected generation to %s, exit %d", cellKey, eff, okWord(want), gr.Exit))
				}
				return
			}
			// with siblings carrying the opposite value exactly one side fails: the diagnostic must name it
			if gr.Exit != 1 {
				bad("sibling_isolation", fmt.Sprintf("%s: with opposite-valued siblings exactly one side must fail, exit %d", cellKey, gr.Exit))
				return
			}
			namesProbe := strings.Contains(gr.Stderr, "Probe(") || strings.Contains(gr.Stderr, "Probe ")
			if want && namesProbe {
				bad("precedence", fmt.Sprintf("%s: effective value %q: the probe method failed although only its opposite-valued siblings should", cellKey, eff))
			} else if !want && !namesProbe {
				bad("sibling_isolation", fmt.Sprintf("%s: effective value %q: the probe method should fail but the diagnostic names a sibling (a sibling's value leaked)", cellKey, eff))
			}
		case "text":
			mustFail := false
			for _, m := range p.marker(eff) {
				if m == "<must fail>" {
					mustFail = true
				}
			}
			if mustFail {
				if gr.Exit != 1 {
					bad("precedence", fmt.Sprintf("%s: no value in effect, generation must fail, exit %d", cellKey, gr.Exit))
				}
				return
			}
			if gr.Exit != 0 {
				bad("unexpected_failure", fmt.Sprintf("%s: generation failed: %s", cellKey, firstLine(gr.Stderr)))
				return
			}
			bodies := methodBodies(gr.Files["p/generated/generated.go"] + "\n" + gr.Files["p/generated/other.go"])
			check := func(method, value, role string) {
				body, ok := bodies[method]
				if !ok {
					bad("missing_method", "emitted method "+method+" not found")
					return
				}
				for _, m := range p.marker(value) {
					if !strings.Contains(body, m) {
						kind := "precedence"
						if role != "probe" {
							kind = "sibling_isolation"
						}
						bad(kind, fmt.Sprintf("%s: %s method should show the effect of %q (marker %q missing)", cellKey, role, value, m))
					}
				}
				for _, m := range p.absent(value) {
					if strings.Contains(body, m) {
						kind := "precedence"
						if role != "probe" {
							kind = "sibling_isolation"
						}
						bad(kind, fmt.Sprintf("%s: %s method shows an effect although the value in effect is %q (marker %q present)", cellKey, role, value, m))
					}
				}
			}
			check("Probe", eff, "probe")
			if c.siblings {
				check("Sib", opp, "sibling")
				check("OtherM", opp, "sibling-converter")
			}
		}
	})
	for i := range results {
		rep.Evaluations++
		if results[i].viol != nil {
			rep.Violation(results[i].viol)
		}
		if results[i].nt != "" {
			rep.NonTrivial(results[i].nt)
		}
		if results[i].samp != nil {
			rep.Sample(results[i].samp)
		}
		rep.Set("settings_probed", cells[i].probe.key)
	}
	if e.Tier == "thorough" {
		rep.Exhaustive = true
	}
	c12Shared(e, rep, bin, root)
	c12EnumSiblings(e, rep, bin, root)
	c12RelativeGlobal(e, rep, bin, root)
	c12Invalid(e, rep, bin, root)
	return rep.Finish()
}

func spell(v string) string {
	if v == "" {
		return "absent"
	}
	if i := strings.LastIndex(v, "/"); i >= 0 {
		return v[i+1:]
	}
	return v
}

func okWord(b bool) string {
	if b {
		return "succeed"
	}
	return "fail"
}

// c12Invalid: settings written where they are not allowed, unknown settings, malformed values and
// conflicting pairs are errors naming where they were written.
func c12Invalid(e *core.Env, rep *core.Report, bin, root string) {
	type inv struct {
		level string // cli | converter | method
		line  string
		why   string
	}
	var invs []inv
	methodOnly := []string{"map V V", "ignore V", "autoMap Nested", "default New", "update target", "context ctx", "enum:map A B", "enum:transform regex A B"}
	convOnly := []string{"name Foo", "output:file ./x.go", "output:package x", "output:format function", "extend F", "struct:comment hello", "enum:exclude p:Foo", "output:raw func X() {}"}
	for _, l := range methodOnly {
		invs = append(invs, inv{"converter", l, "method-only setting on the converter"}, inv{"cli", l, "method-only setting on the command line"})
	}
	for _, l := range convOnly {
		invs = append(invs, inv{"method", l, "converter-only setting on a method"})
	}
	for _, lvl := range []string{"cli", "converter", "method"} {
		for _, l := range []string{"bogusSetting", "bogusSetting yes", "ignoreMissingg", "IgnoreMissing", "ignoreMissing maybe", "ignoreMissing yes no", "skipCopySameType 1", "wrapErrorsUsing", "wrapErrorsUsing a b",
			"enum:unknown", "enum:unknown @nope", "enum:unknown A B", "arg:context:regex", "arg:context:regex (", "arg:context:regex a b", "enum maybe", "useZeroValueOnPointerInconsistency true", "matchIgnoreCase off",
			"update:ignoreZeroValueField:bogus", "default:update 2", ":", "ignoreUnexported  yes  no"} {
			invs = append(invs, inv{lvl, l, "unknown setting or malformed value"})
		}
	}
	for _, l := range []string{"map", "map A B C", "map A.B", "map A B.C", "ignore", "enum:map A", "enum:map A B C", "enum:map A @nope", "enum:transform bogus x", "autoMap", "autoMap A B", "update", "update a b", "context", "context a b", "default", "default Nope", "map V V | Nope", "context nosuch", "map V V | vcase/w/nosuchpkg:F", "default Zzz.*"} {
		invs = append(invs, inv{"method", l, "malformed method setting"})
	}
	for _, l := range []string{"name", "name A B", "output:file", "output:file a b", "output:format", "output:format bogus", "output:format struct function", "output:package a b", "extend Nope", "extend (", "enum:exclude (", "output:format assign-variable",
		"extend Zzz.*", "extend vcase/w/...:F", "extend vcase/w/nosuchpkg:F", "extend p:", "extend"} {
		invs = append(invs, inv{"converter", l, "malformed converter setting"})
	}
	invs = append(invs, inv{"cli", "extend", "missing value"})
	// conflicts
	type conflict struct{ cli, conv, meth []string }
	conflicts := []conflict{
		{conv: []string{"wrapErrors", "wrapErrorsUsing vcase/w/ea"}}, {conv: []string{"wrapErrorsUsing vcase/w/ea", "wrapErrors"}},
		{cli: []string{"wrapErrors"}, conv: []string{"wrapErrorsUsing vcase/w/ea"}}, {cli: []string{"wrapErrorsUsing vcase/w/ea"}, conv: []string{"wrapErrors yes"}},
		{conv: []string{"wrapErrors"}, meth: []string{"wrapErrorsUsing vcase/w/ea"}}, {conv: []string{"wrapErrorsUsing vcase/w/ea"}, meth: []string{"wrapErrors"}},
		{cli: []string{"wrapErrors"}, meth: []string{"wrapErrorsUsing vcase/w/ea"}}, {meth: []string{"wrapErrors", "wrapErrorsUsing vcase/w/ea"}},
	}
	base := func(conv, meth, fn []string, sig string) string {
		var sb strings.Builder
		sb.WriteString("package p\n\ntype In struct{ V int; Nested struct{ W int } }\ntype Out struct{ V int }\nfunc F(s string) string { return s }\nfunc New() Out { return Out{} }\n\n")
		if len(fn) > 0 {
			// a custom function that carries the line in its own doc comment
			sb.WriteString("type Ctx struct{ N int }\n\n// Fx converts.\n")
			for _, l := range fn {
				sb.WriteString("// goverter:" + l + "\n")
			}
			sb.WriteString("func Fx(v int, c Ctx) int { return v + c.N }\n\n")
		}
		sb.WriteString("// goverter:converter\n")
		for _, l := range conv {
			sb.WriteString("// goverter:" + l + "\n")
		}
		sb.WriteString("type Conv interface {\n")
		for _, l := range meth {
			sb.WriteString("\t// goverter:" + l + "\n")
		}
		if sig != "" {
			sb.WriteString("\t" + sig + "\n}\n")
		} else if len(fn) > 0 {
			sb.WriteString("\tConvert(source In, c Ctx) Out\n}\n")
		} else {
			sb.WriteString("\tConvert(source In) Out\n}\n")
		}
		return sb.String()
	}
	type job struct {
		name       string
		cli        []string
		conv, meth []string
		fn         []string
		sig        string
		why, line  string
		level      string
		want       string // where the diagnostic has to point when several levels carry lines: cli | file
	}
	var jobs []job
	for i, v := range invs {
		j := job{name: fmt.Sprintf("v%04d", i), why: v.why, line: v.line, level: v.level}
		switch v.level {
		case "cli":
			j.cli = []string{v.line}
		case "converter":
			j.conv = []string{v.line}
		default:
			j.meth = []string{v.line}
		}
		jobs = append(jobs, j)
	}
	// several extend lines / levels, exactly one of them unusable: the diagnostic names THAT one
	for i, x := range []struct {
		cli, conv []string
		want      string
	}{
		{[]string{"extend Nope"}, []string{"extend F"}, "cli"},
		{[]string{"extend F"}, []string{"extend Nope"}, "file"},
		{nil, []string{"extend F", "extend Nope"}, "file"},
		{nil, []string{"extend Nope", "extend F"}, "file"},
		{[]string{"extend F", "extend Nope"}, nil, "cli"},
		{[]string{"extend F"}, []string{"extend F", "extend Nope"}, "file"},
		{[]string{"extend F", "extend Nope"}, []string{"extend F"}, "cli"},
		{[]string{"extend F"}, []string{"extend F", "extend F", "extend Zzz.*"}, "file"},
	} {
		jobs = append(jobs, job{name: fmt.Sprintf("x%02d", i), cli: x.cli, conv: x.conv, why: "one unusable extend entry among several", line: "extend Nope", level: x.want, want: x.want})
	}
	// settings written on a custom function: only context is defined there
	for i, l := range []string{"nonsense foo", "context", "context a b", "ignore V", "contextt c", "extend F", "wrapErrors"} {
		for k, use := range [][]string{{"extend Fx"}, {"extend Fx.*"}} {
			jobs = append(jobs, job{name: fmt.Sprintf("f%02d%d", i, k), conv: use, meth: []string{"context c"}, fn: []string{"context c", l}, why: "unknown or malformed setting on a custom function", line: l, level: "function"})
		}
		jobs = append(jobs, job{name: fmt.Sprintf("f%02dm", i), meth: []string{"context c", "map V V | Fx"}, fn: []string{l, "context c"}, why: "unknown or malformed setting on a custom function", line: l, level: "function"})
	}
	// controls: the same programs with the valid line only must be accepted
	jobs = append(jobs, job{name: "fctl0", conv: []string{"extend Fx"}, meth: []string{"context c"}, fn: []string{"context c"}, why: "control", line: "context c", level: "function"})
	jobs = append(jobs, job{name: "fctl1", conv: []string{"extend Fx.*"}, meth: []string{"context c"}, fn: []string{"context c"}, why: "control", line: "context c", level: "function"})
	jobs = append(jobs, job{name: "fctl2", meth: []string{"context c", "map V V | Fx"}, fn: []string{"context c"}, why: "control", line: "context c", level: "function"})
	// field settings on methods whose target is no struct / pointer to struct
	for i, sig := range []string{"Convert(source []In) []Out", "Convert(source *[]In) *[]Out", "Convert(source *In) **Out", "Convert(source map[string]In) *map[string]Out", "Convert(source In) *[]Out"} {
		for k, l := range []string{"ignore V", "map V V", "autoMap Nested"} {
			jobs = append(jobs, job{name: fmt.Sprintf("p%02d%d", i, k), meth: []string{l}, sig: sig, why: "field setting on a method whose target is not a struct or a pointer to a struct", line: l + " on " + sig, level: "method"})
		}
	}
	// settings that need the struct format, in both orders and across levels
	for i, l := range []string{"name Foo", "struct:comment hello"} {
		jobs = append(jobs, job{name: fmt.Sprintf("o%02da", i), conv: []string{"output:format function", l}, why: "struct-only setting with output:format function", line: l + " after output:format function", level: "converter"})
		jobs = append(jobs, job{name: fmt.Sprintf("o%02db", i), conv: []string{l, "output:format function"}, why: "struct-only setting with output:format function", line: l + " before output:format function", level: "converter"})
		jobs = append(jobs, job{name: fmt.Sprintf("o%02dc", i), cli: []string{"output:format function"}, conv: []string{l}, why: "struct-only setting with output:format function", line: l + " with -g output:format function", level: "converter"})
	}
	for i, c := range conflicts {
		lvl := "converter"
		if len(c.meth) > 0 {
			lvl = "method"
		}
		jobs = append(jobs, job{name: fmt.Sprintf("w%04d", i), cli: c.cli, conv: c.conv, meth: c.meth, why: "wrapErrors together with wrapErrorsUsing", line: "wrapErrors+wrapErrorsUsing", level: lvl})
	}
	if e.Tier != "thorough" {
		// quick: a seed-rotated half
		var sel []job
		for i, j := range jobs {
			if (i+int(e.Seed))%2 == 0 || strings.HasPrefix(j.name, "w") || strings.HasPrefix(j.name, "f") || strings.HasPrefix(j.name, "o") || strings.HasPrefix(j.name, "p") || strings.HasPrefix(j.name, "x") || j.line == "extend" || j.line == "ignore" {
				sel = append(sel, j)
			}
		}
		jobs = sel
	}
	viols := make([]*core.Viol, len(jobs))
	core.Parallel(len(jobs), func(i int) {
		j := jobs[i]
		dir := filepath.Join(root, j.name)
		fix := func(ls []string) []string {
			var o []string
			for _, l := range ls {
				o = append(o, strings.ReplaceAll(l, "vcase/w/", "vcase/"+j.name+"/"))
			}
			return o
		}
		writeFiles(dir, map[string]string{"p/input.go": base(fix(j.conv), fix(j.meth), j.fn, j.sig), "ea/ea.go": fmt.Sprintf(wrapPkg, "ea")})
		args := []string{"gen"}
		for k, l := range fix(j.cli) {
			flag := "-g"
			if (i+k)%2 == 1 {
				flag = "-global"
			}
			args = append(args, flag, l)
		}
		args = append(args, "./p")
		gr := runGen(e, bin, dir, dir, args, nil)
		det := fmt.Sprintf("%s at %s level: %q\nargs=%v exit=%d\nstderr=%s", j.why, j.level, j.line, args, gr.Exit, head(gr.Stderr, 1000))
		if j.why == "control" {
			if gr.Exit != 0 {
				viols[i] = &core.Viol{Kind: "valid_rejected", Case: j.name, Summary: "control program with a valid goverter:context line on a custom function was rejected", Detail: det, Dir: dir, Tags: []string{"level:" + j.level}}
			}
			return
		}
		if gr.Exit != 1 || strings.TrimSpace(gr.Stderr) == "" {
			viols[i] = &core.Viol{Kind: "invalid_accepted", Case: j.name, Summary: fmt.Sprintf("%s (%q at %s level) was not rejected, exit %d", j.why, j.line, j.level, gr.Exit), Detail: det, Dir: dir, Tags: []string{"level:" + j.level}}
			return
		}
		// the diagnostic must name where the line was written
		named := false
		switch {
		case j.want == "cli":
			named = namesCLI(gr.Stderr) && !strings.Contains(gr.Stderr, "input.go:")
		case j.want == "file":
			named = strings.Contains(gr.Stderr, "input.go:") && !namesCLI(gr.Stderr)
		case len(j.cli) > 0 && len(j.conv) == 0 && len(j.meth) == 0:
			named = namesCLI(gr.Stderr)
		default:
			named = strings.Contains(gr.Stderr, "input.go:") || namesCLI(gr.Stderr)
		}
		if !named {
			viols[i] = &core.Viol{Kind: "location_missing", Case: j.name, Summary: fmt.Sprintf("diagnostic for %q at %s level does not name where it was written", j.line, j.level), Detail: det, Dir: dir, Tags: []string{"level:" + j.level}}
		}
	})
	var kinds []string
	for i, j := range jobs {
		rep.Evaluations++
		if viols[i] != nil {
			rep.Violation(viols[i])
		}
		rep.NonTrivial("invalid|" + j.level + "|" + j.line)
		kinds = append(kinds, j.level)
	}
	sort.Strings(kinds)
	rep.Extra["invalid_settings_checked"] = len(jobs)
}

// c12Shared: two sibling methods share a generated sub-method (a nested named struct pair). The setting written on
// one sibling must not change the other sibling's behaviour: the shared sub-method follows the converter-level value,
// whichever method triggers its creation first.
func c12Shared(e *core.Env, rep *core.Report, bin, root string) {
	type sc struct {
		key        string
		conv, meth string // yes | no | ""
		first      bool   // the alphabetically first method carries the setting
		name       string
	}
	var scs []sc
	i := 0
	for _, key := range []string{"wrapErrors", "useZeroValueOnPointerInconsistency", "skipCopySameType", "ignoreMissing", "matchIgnoreCase"} {
		for _, cv := range []string{"", "yes", "no"} {
			for _, mv := range []string{"yes", "no"} {
				for _, first := range []bool{true, false} {
					scs = append(scs, sc{key, cv, mv, first, fmt.Sprintf("sh%03d", i)})
					i++
				}
			}
		}
	}
	viols := make([]*core.Viol, len(scs))
	core.Parallel(len(scs), func(i int) {
		s := scs[i]
		dir := filepath.Join(root, s.name)
		var nested, extra string
		errRes := ""
		switch s.key {
		case "wrapErrors":
			nested = "type Nested struct{ S string }\ntype NestedOut struct{ S string }\n"
			extra = "// goverter:extend SE\n"
			errRes = "err"
		case "useZeroValueOnPointerInconsistency":
			nested = "type Nested struct{ V *int }\ntype NestedOut struct{ V int }\n"
		case "skipCopySameType":
			nested = "type Nested struct{ C chan int }\ntype NestedOut struct{ C chan int }\n"
		case "ignoreMissing":
			nested = "type Nested struct{ V int }\ntype NestedOut struct{ V int; Extra int }\n"
		case "matchIgnoreCase":
			nested = "type Nested struct{ VALUE int }\ntype NestedOut struct{ Value int }\n"
		}
		res := func(t string) string {
			if errRes != "" {
				return "(" + t + ", error)"
			}
			return t
		}
		line := func(v string) string {
			if v == "" {
				return ""
			}
			return "\t// goverter:" + s.key + " " + v + "\n"
		}
		la, lb := line(s.meth), ""
		if !s.first {
			la, lb = "", line(s.meth)
		}
		convLine := ""
		if s.conv != "" {
			convLine = "// goverter:" + s.key + " " + s.conv + "\n"
		}
		src := "package p\n\nfunc SE(s string) (string, error) { return s, nil }\n" + nested +
			"type InA struct{ N Nested }\ntype OutA struct{ N NestedOut }\ntype InB struct{ N Nested; X int }\ntype OutB struct{ N NestedOut; X int }\n\n// goverter:converter\n" + extra + convLine +
			"type Conv interface {\n" + la + "\tAlpha(source InA) " + res("OutA") + "\n" + lb + "\tBeta(source InB) " + res("OutB") + "\n}\n"
		writeFiles(dir, map[string]string{"p/input.go": src})
		gr := runGen(e, bin, dir, dir, []string{"gen", "./p"}, nil)
		convOn := s.conv == "yes"
		det := fmt.Sprintf("%s: converter=%q, method value %q on the %s method\nexit=%d stderr=%s\n--- input ---\n%s\n--- output ---\n%s", s.key, s.conv, s.meth, map[bool]string{true: "first (Alpha)", false: "second (Beta)"}[s.first], gr.Exit, head(gr.Stderr, 800), src, head(gr.Files["p/generated/generated.go"], 2500))
		bad := func(sum string) {
			viols[i] = &core.Viol{Kind: "sibling_isolation", Case: s.name, Summary: sum, Detail: det, Dir: dir, Tags: []string{"setting:" + s.key, "shared-submethod"}}
		}
		if s.key == "wrapErrors" {
			if gr.Exit != 0 {
				bad("shared sub-method scenario for wrapErrors failed to generate: " + firstLine(gr.Stderr))
				return
			}
			bodies := methodBodies(gr.Files["p/generated/generated.go"])
			var sub string
			for n, b := range bodies {
				if n != "Alpha" && n != "Beta" {
					sub = b
				}
			}
			has := strings.Contains(sub, "error setting field S")
			if has != convOn {
				bad(fmt.Sprintf("wrapErrors: the sub-method shared by two sibling methods wraps=%v although the converter-level value is %q (a method's value leaked into the shared sub-method)", has, s.conv))
			}
			return
		}
		// success-type settings: the nested pair converts only with the setting; the shared sub-method uses the converter level
		if (gr.Exit == 0) != convOn {
			bad(fmt.Sprintf("%s: nested conversion shared by two sibling methods %s although the converter-level value is %q and only one sibling carries %q", s.key, map[bool]string{true: "was generated", false: "was rejected"}[gr.Exit == 0], s.conv, s.meth))
		}
	})
	for i := range scs {
		rep.Evaluations++
		if viols[i] != nil {
			rep.Violation(viols[i])
		}
		rep.NonTrivial(fmt.Sprintf("shared|%s|%s|%s|%v", scs[i].key, scs[i].conv, scs[i].meth, scs[i].first))
	}
	rep.Extra["shared_submethod_scenarios"] = len(scs)
}

// c12EnumSiblings: the same enum types are converted by two sibling methods, or by two converters of one run, only
// one of which switches enum handling off (enum no / enum:exclude). Each keeps its own effective value - the one that
// is built first must not decide for the other (observed in the emitted method bodies: name-driven switch vs cast).
func c12EnumSiblings(e *core.Env, rep *core.Report, bin, root string) {
	type sc struct {
		name   string
		level  string // method | converter
		line   string
		offOne bool // the alphabetically first method / converter carries the line
	}
	var scs []sc
	i := 0
	// method level is not part of this: a method with `enum no` reuses the enum helper a sibling has already caused
	// (existing methods are found by signature before any rule is consulted), see DESIGN 5.1 "not judged"
	for _, level := range []string{"converter"} {
		for _, line := range []string{"enum no", "enum:exclude vcase/es/p:KA", "enum:exclude .*:K."} {
			if level == "method" && line != "enum no" {
				continue // enum:exclude is a converter setting
			}
			for _, first := range []bool{true, false} {
				scs = append(scs, sc{fmt.Sprintf("es%02d", i), level, line, first})
				i++
			}
		}
	}
	viols := make([]*core.Viol, len(scs))
	core.Parallel(len(scs), func(i int) {
		s := scs[i]
		dir := filepath.Join(root, s.name)
		types := "type KA int\nconst ( A1 KA = 1; A2 KA = 2 )\ntype InA struct{ K KA }\ntype OutA struct{ K q.KB }\ntype InB struct{ K KA; L []KA }\ntype OutB struct{ K q.KB; L []q.KB }\n"
		qsrc := "package q\n\ntype KB int\nconst ( A2 KB = 1; A1 KB = 2 )\n"
		var src string
		if s.level == "method" {
			la, lb := "\t// goverter:"+s.line+"\n", ""
			if !s.offOne {
				la, lb = lb, la
			}
			src = "package p\n\nimport \"vcase/es/q\"\n\n" + types + "\n// goverter:converter\n// goverter:enum:unknown @ignore\ntype Conv interface {\n" + la + "\tAlpha(source InA) OutA\n" + lb + "\tBeta(source InB) OutB\n}\n"
		} else {
			ca, cb := "// goverter:"+s.line+"\n", "// goverter:enum:unknown @ignore\n"
			if !s.offOne {
				ca, cb = cb, ca
			}
			src = "package p\n\nimport \"vcase/es/q\"\n\n" + types + "\n// goverter:converter\n" + ca + "type AConv interface {\n\tAlpha(source InA) OutA\n}\n\n// goverter:converter\n" + cb + "type ZConv interface {\n\tBeta(source InB) OutB\n}\n"
		}
		src = strings.ReplaceAll(src, "vcase/es/", "vcase/"+s.name+"/")
		writeFiles(dir, map[string]string{"p/input.go": src, "q/q.go": qsrc})
		gr := runGen(e, bin, dir, dir, []string{"gen", "./p"}, nil)
		out := gr.Files["p/generated/generated.go"]
		det := fmt.Sprintf("%s-level %q on the %s of two siblings\nexit=%d stderr=%s\n--- input ---\n%s\n--- output ---\n%s", s.level, s.line, map[bool]string{true: "first (Alpha)", false: "second (Beta)"}[s.offOne], gr.Exit, head(gr.Stderr, 800), src, head(out, 3000))
		bad := func(sum string) {
			viols[i] = &core.Viol{Kind: "sibling_isolation", Case: s.name, Summary: sum, Detail: det, Dir: dir, Tags: []string{"setting:enum", "enum-siblings"}}
		}
		if gr.Exit != 0 {
			bad("two siblings converting one enum pair, one of them with " + s.line + ": generation failed: " + firstLine(gr.Stderr))
			return
		}
		bodies := methodBodies(out)
		for _, m := range []string{"Alpha", "Beta"} {
			wantOff := (m == "Alpha") == s.offOne
			b, ok := bodies[m]
			if !ok {
				bad("emitted method " + m + " not found")
				return
			}
			// the pair is converted inline or by a generated helper of the same converter
			if hm := regexp.MustCompile(`c\.(pKAToQKB\d*)\(`).FindStringSubmatch(b); hm != nil {
				b += "\n" + bodies[hm[1]]
			}
			isEnum := strings.Contains(b, "switch ")
			if !isEnum && !strings.Contains(b, "q.KB(source") {
				bad("neither a name-driven switch nor a cast found for KA -> KB in method " + m)
				return
			}
			if isEnum == wantOff {
				bad(fmt.Sprintf("enum: method %s converts KA -> KB %s although its effective enum setting is %s (the sibling's %q decided)", m, map[bool]string{true: "by name (switch)", false: "by a plain cast"}[isEnum], map[bool]string{true: "off", false: "on"}[wantOff], s.line))
				return
			}
		}
	})
	for i := range scs {
		rep.Evaluations++
		if viols[i] != nil {
			rep.Violation(viols[i])
		}
		rep.NonTrivial(fmt.Sprintf("enumsiblings|%s|%s|%v", scs[i].level, scs[i].line, scs[i].offOne))
	}
	rep.Extra["enum_sibling_scenarios"] = len(scs)
}

// c12RelativeGlobal: a CLI-level setting that names a package RELATIVE to the converter (`-g "extend ./helper:F"`,
// `-g "wrapErrorsUsing ./helper"`-style paths) is resolved for every converter of the run against that converter's own
// package - also for the second and third package of the run.
func c12RelativeGlobal(e *core.Env, rep *core.Report, bin, root string) {
	for _, order := range [][]string{{"./a", "./b", "./c"}, {"./c", "./b", "./a"}, {"./b"}} {
		name := "rg" + strings.NewReplacer("./", "", " ", "").Replace(strings.Join(order, ""))
		dir := filepath.Join(root, name)
		files := map[string]string{}
		for _, pk := range []string{"a", "b", "c"} {
			files[pk+"/input.go"] = "package " + pk + "\n\ntype In struct{ V int }\ntype Out struct{ V string }\n\n// goverter:converter\ntype Conv interface {\n\tConvert(source In) Out\n}\n"
			files[pk+"/helper/h.go"] = "package helper\n\nfunc IntToString(i int) string { return \"" + pk + "\" }\n"
		}
		writeFiles(dir, files)
		gr := runGen(e, bin, dir, dir, append([]string{"gen", "-g", "extend ./helper:IntToString"}, order...), nil)
		rep.Evaluations++
		rep.NonTrivial("relativeglobal|" + strings.Join(order, ","))
		det := fmt.Sprintf("args: gen -g 'extend ./helper:IntToString' %v\nexit=%d stderr=%s", order, gr.Exit, head(gr.Stderr, 1000))
		if gr.Exit != 0 {
			rep.Violation(&core.Viol{Kind: "relative_global", Case: name, Summary: "a CLI-level extend with a converter-relative package path failed for a run over several packages: " + firstLine(gr.Stderr), Detail: det, Dir: dir, Tags: []string{"setting:extend", "relative-global"}})
			continue
		}
		for _, pat := range order {
			pk := strings.TrimPrefix(pat, "./")
			out := gr.Files[pk+"/generated/generated.go"]
			want := "vcase/" + name + "/" + pk + "/helper"
			if !strings.Contains(out, want+"\"") || !strings.Contains(out, ".IntToString(") {
				rep.Violation(&core.Viol{Kind: "relative_global", Case: name, Summary: "converter of package " + pk + " does not use the function of ITS OWN ./helper package given by the CLI-level extend", Detail: det + "\n--- output ---\n" + head(out, 1500), Dir: dir, Tags: []string{"setting:extend", "relative-global"}})
			}
		}
	}
	rep.Extra["relative_global_programs"] = 3
}

// namesCLI: the diagnostic says that the setting was given on the command line (wording is not prescribed).
func namesCLI(stderr string) bool {
	l := strings.ToLower(stderr)
	for _, k := range []string{"command line", "command-line", "commandline", "(-g", "-global", "cli argument", "cli flag"} {
		if strings.Contains(l, k) {
			return true
		}
	}
	return false
}

package checks

import (
	"encoding/json"
	"fmt"
	"go/ast"
	"go/parser"
	"go/token"
	"math/rand"
	"os"
	"path/filepath"
	"sort"
	"strings"
	"time"

	"verif/internal/core"
)

func init() { Registry["C19"] = C19 }

// docStyle renders one setting line in a comment style; isSetting tells whether the line is a setting
// according to the property (trimmed text starts with "goverter:").
type docLine struct {
	text    string // complete comment line(s) incl. newline
	setting string // expected raw line (after "goverter:"), "" if none
}

func styleLine(r *rand.Rand, s string) docLine {
	switch r.Intn(9) {
	case 0:
		return docLine{"// goverter:" + s + "\n", s}
	case 1:
		return docLine{"//goverter:" + s + "\n", s}
	case 2:
		return docLine{"//    goverter:" + s + "\n", s}
	case 3:
		return docLine{"//\tgoverter:" + s + "\n", s}
	case 4:
		return docLine{"// goverter:" + s + "  \t \n", s}
	case 5:
		return docLine{"/* goverter:" + s + " */\n", s}
	case 6:
		return docLine{"/*\ngoverter:" + s + "\n*/\n", s}
	case 7:
		return docLine{"/*\n\t  goverter:" + s + "   \n\n*/\n", s}
	default:
		return docLine{"// \t goverter:" + s + "\n", s}
	}
}

// noise lines that must NOT be settings
func noiseLine(r *rand.Rand, decoy string) docLine {
	if r.Intn(40) == 0 {
		// a very long prose line (> 64 KiB): the lines after it are still settings
		return docLine{"// " + strings.Repeat("long prose ", 7000) + "\n", ""}
	}
	switch r.Intn(7) {
	case 0:
		return docLine{"// prose that mentions goverter:" + decoy + " in the middle of a line\n", ""}
	case 1:
		return docLine{"//\n", ""}
	case 2:
		return docLine{"/*\n * goverter:" + decoy + "\n */\n", ""} // star-prefixed: trimmed text starts with '*'
	case 3:
		return docLine{"// - goverter:" + decoy + "\n", ""}
	case 4:
		return docLine{"// Goverter:" + decoy + "\n", ""}
	case 5:
		return docLine{"// goverter :" + decoy + "\n", ""}
	default:
		return docLine{"// some documentation.\n", ""}
	}
}

type c19Decl struct {
	kind     string // iface | vars | func
	name     string
	expConv  []string            // expected converter-level raw lines
	expMeth  map[string][]string // method/variable name -> expected raw lines
	implName string
	outFile  string
	decoys   []string
	comment  string // a line the emitted struct comment must contain verbatim
}

// docGroup builds an attached doc comment from settings with interspersed noise.
func docGroup(r *rand.Rand, indent string, settings []string, decoy string) (string, []string) {
	var sb strings.Builder
	var exp []string
	// a doc comment group must not contain blank (non-comment) lines
	prev, prevLine := "", docLine{}
	for _, s := range settings {
		if s == prev {
			// a setting repeated on the directly following line, written in exactly the same way: both lines are settings
			sb.WriteString(indentText(indent, prevLine.text))
			exp = append(exp, strings.TrimSpace(prevLine.setting))
			continue
		}
		if r.Intn(3) == 0 {
			n := noiseLine(r, decoy)
			sb.WriteString(indentText(indent, n.text))
		}
		dl := styleLine(r, s)
		prev, prevLine = s, dl
		sb.WriteString(indentText(indent, dl.text))
		exp = append(exp, strings.TrimSpace(dl.setting))
	}
	if r.Intn(3) == 0 {
		sb.WriteString(indentText(indent, noiseLine(r, decoy).text))
	}
	return sb.String(), exp
}

func indentText(indent, t string) string {
	if indent == "" {
		return t
	}
	lines := strings.SplitAfter(t, "\n")
	var sb strings.Builder
	for _, l := range lines {
		if l == "" {
			continue
		}
		sb.WriteString(indent + l)
	}
	return sb.String()
}

// c19File generates one input file with several declarations and the ground truth.
func c19File(r *rand.Rand, pkg string, idx int) (string, []*c19Decl) {
	var sb strings.Builder
	sb.WriteString("package " + pkg + "\n\n")
	sb.WriteString("type In struct{ V int; W string }\ntype Out struct{ V int; W string; Skip bool }\n\n")
	var decls []*c19Decl
	n := 2 + r.Intn(3)
	for k := 0; k < n; k++ {
		id := fmt.Sprintf("%d_%d", idx, k)
		d := &c19Decl{name: "C" + id, expMeth: map[string][]string{}, implName: "Impl" + id, outFile: "./out" + id + "/gen.go"}
		vars := r.Intn(4) == 0
		decoyName := "Decoy" + id
		// detached decoy comment (blank line between comment and declaration)
		if r.Intn(2) == 0 {
			sb.WriteString("// goverter:name " + decoyName + "a\n// goverter:output:file ./decoy" + id + "/a.go\n\n")
		}
		if vars {
			d.kind = "vars"
			settings := []string{"variables", "output:file ./out" + id + "/vars.gen.go", "output:package vcase/" + pkg + "/out" + id}
			d.outFile = "./out" + id + "/vars.gen.go"
			doc, exp := docGroup(r, "", settings, "name "+decoyName+"b")
			d.expConv = exp
			sb.WriteString(doc)
			sb.WriteString("var (\n")
			vname := "Conv" + id
			mdoc, mexp := docGroup(r, "\t", []string{"ignore Skip"}, "ignore V")
			sb.WriteString(mdoc)
			d.expMeth[vname] = mexp
			sb.WriteString("\t" + vname + " func(source In) Out // goverter:ignore W\n")
			sb.WriteString(")\n\n")
			d.name = vname
		} else {
			d.kind = "iface"
			settings := []string{"converter", "name " + d.implName, "output:file " + d.outFile}
			if r.Intn(2) == 0 {
				// the value is the text after the FIRST space: further leading blanks belong to it
				// observed through output:raw lines that form a raw string literal (gofmt leaves its content alone)
				settings = append(settings, "output:raw var Raw"+id+" = `", "output:raw     indented four for "+id, "output:raw twice "+id, "output:raw twice "+id, "output:raw `")
				d.comment = "\n    indented four for " + id + "\ntwice " + id + "\ntwice " + id + "\n"
			}
			doc, exp := docGroup(r, "", settings, "name "+decoyName+"b")
			d.expConv = exp
			grouped := r.Intn(3)
			switch grouped {
			case 0: // plain
				sb.WriteString(doc)
				sb.WriteString("type " + d.name + " interface {\n")
			case 1: // grouped, marker on the group doc (single spec)
				sb.WriteString(doc)
				sb.WriteString("type (\n\t" + d.name + " interface {\n")
			default: // grouped with another spec, marker on the spec doc
				sb.WriteString("type (\n\tOther" + id + " struct{ X int }\n\n")
				sb.WriteString(indentText("\t", doc))
				sb.WriteString("\t" + d.name + " interface {\n")
			}
			// decoy inside the body, detached from the method
			if r.Intn(2) == 0 {
				sb.WriteString("\t\t// goverter:ignore V\n\n")
			}
			mdoc, mexp := docGroup(r, "\t\t", []string{"ignore Skip"}, "ignore V")
			sb.WriteString(mdoc)
			d.expMeth["Conv"] = mexp
			sb.WriteString("\t\tConv(source In) Out // goverter:ignore W\n")
			if r.Intn(2) == 0 {
				sb.WriteString("\t\t// goverter:ignore V\n")
			}
			if grouped == 0 {
				sb.WriteString("} // goverter:name " + decoyName + "c\n")
			} else {
				sb.WriteString("\t} // goverter:name " + decoyName + "c\n)\n")
			}
			sb.WriteString("// goverter:name " + decoyName + "d\n\n")
		}
		decls = append(decls, d)
	}
	return sb.String(), decls
}

// independentExtract is the independent extractor: go/parser doc groups, strip comment markers,
// split lines, trim, prefix filter.
func independentExtract(src string) (map[string][]string, map[string]map[string][]string, error) {
	fset := token.NewFileSet()
	f, err := parser.ParseFile(fset, "input.go", src, parser.ParseComments)
	if err != nil {
		return nil, nil, err
	}
	lines := func(g *ast.CommentGroup) []string {
		var out []string
		if g == nil {
			return nil
		}
		for _, c := range g.List {
			t := c.Text
			if strings.HasPrefix(t, "//") {
				t = t[2:]
			} else {
				t = strings.TrimSuffix(strings.TrimPrefix(t, "/*"), "*/")
			}
			for _, l := range strings.Split(t, "\n") {
				l = strings.TrimSpace(l)
				if strings.HasPrefix(l, "goverter:") {
					out = append(out, strings.TrimPrefix(l, "goverter:"))
				}
			}
		}
		return out
	}
	has := func(ls []string, m string) bool {
		for _, l := range ls {
			if l == m || strings.HasPrefix(l, m+" ") {
				return true
			}
		}
		return false
	}
	conv := map[string][]string{}
	meth := map[string]map[string][]string{}
	for _, d := range f.Decls {
		gd, ok := d.(*ast.GenDecl)
		if !ok {
			continue
		}
		gl := lines(gd.Doc)
		if gd.Tok == token.VAR && has(gl, "variables") {
			for _, s := range gd.Specs {
				vs := s.(*ast.ValueSpec)
				name := vs.Names[0].Name
				conv[name] = gl
				meth[name] = map[string][]string{name: lines(vs.Doc)}
			}
			continue
		}
		for _, s := range gd.Specs {
			ts, ok := s.(*ast.TypeSpec)
			if !ok {
				continue
			}
			it, ok := ts.Type.(*ast.InterfaceType)
			if !ok {
				continue
			}
			cl := gl
			if !has(cl, "converter") {
				cl = lines(ts.Doc)
			}
			if !has(cl, "converter") {
				continue
			}
			conv[ts.Name.Name] = cl
			mm := map[string][]string{}
			for _, m := range it.Methods.List {
				if len(m.Names) == 1 {
					mm[m.Names[0].Name] = lines(m.Doc)
				}
			}
			meth[ts.Name.Name] = mm
		}
	}
	return conv, meth, nil
}

type rawConv struct {
	InterfaceName string
	Converter     struct{ Lines []string }
	Methods       map[string]struct{ Lines []string }
}

func eqLines(a, b []string) bool {
	if len(a) != len(b) {
		return false
	}
	for i := range a {
		if a[i] != b[i] {
			return false
		}
	}
	return true
}

// C19: exactly the goverter: lines of attached doc comments are settings, in order.
func C19(e *core.Env) int {
	rep := core.NewReport(e, "exploration")
	rep.Rule = "generated files with converter interfaces and variables blocks whose settings are written in random comment layouts (// goverter:x, //goverter:x, extra spaces, tabs, trailing blanks, single- and multi-line block comments, blank comment lines, prose mentioning goverter: mid-line, star-prefixed block lines, grouped type(...) declarations with the marker on the group or on the spec) and surrounded by decoys that must have no effect (comments detached by a blank line, trailing comments, comments inside bodies and after the declaration); three observers must agree with the generator's ground truth: the independent extractor (go/parser), goverter's comments.ParseDocs (public API: ordered raw lines per converter/method), and the real CLI through its effect (struct name, output path, ignored field; a decoy taken would rename/relocate/unassign); markers on the wrong kind of declaration must fail; CRLF variants of the files must behave identically; non-trivial = declaration whose ordered lines were compared; distinct = comment text of the declaration"
	rep.Assumptions = []string{"prose containing the literal marker text is not generated (the marker test is a substring test by specification)", "go/parser attaches doc comments as the language defines"}
	rep.Floor = tierN(e, 50, 500)
	bin, err := e.BuildCLI("plain")
	if err != nil {
		rep.Inconclusive = append(rep.Inconclusive, err.Error())
		return rep.Finish()
	}
	helper, err := e.BuildHelper("inproc")
	if err != nil {
		rep.Inconclusive = append(rep.Inconclusive, err.Error())
		return rep.Finish()
	}
	root := filepath.Join(e.Scratch, "c19")
	os.MkdirAll(root, 0o755)
	os.WriteFile(filepath.Join(root, "go.mod"), []byte("module vcase\n\ngo 1.22\n"), 0o644)
	nfiles := tierN(e, 120, 2500)
	r := rand.New(rand.NewSource(e.Seed*40503 + 19))
	type fileCase struct {
		pkg   string
		src   string
		decls []*c19Decl
		crlf  bool
	}
	var fcs []fileCase
	for i := 0; i < nfiles; i++ {
		pkg := fmt.Sprintf("k%04d", i)
		src, decls := c19File(rand.New(rand.NewSource(r.Int63())), pkg, i)
		fc := fileCase{pkg: pkg, src: src, decls: decls, crlf: i%5 == 4}
		if fc.crlf {
			fc.src = strings.ReplaceAll(fc.src, "\n", "\r\n")
		}
		fcs = append(fcs, fc)
		os.MkdirAll(filepath.Join(root, pkg), 0o755)
		os.WriteFile(filepath.Join(root, pkg, "input.go"), []byte(fc.src), 0o644)
	}
	type result struct {
		viols []*core.Viol
		nts   []string
		samp  map[string]any
	}
	results := make([]result, len(fcs))
	core.Parallel(len(fcs), func(i int) {
		fc := fcs[i]
		res := &results[i]
		dir := filepath.Join(root, fc.pkg)
		bad := func(kind, sum, det string) {
			res.viols = append(res.viols, &core.Viol{Kind: kind, Case: fc.pkg, Summary: sum, Detail: det + "\n\n--- input.go ---\n" + head(fc.src, 3000), Dir: dir})
		}
		// observer 1: independent extractor vs ground truth
		iconv, imeth, err := independentExtract(strings.ReplaceAll(fc.src, "\r\n", "\n"))
		if err != nil {
			bad("generator", "generated layout does not parse: "+err.Error(), "")
			return
		}
		for _, d := range fc.decls {
			if !eqLines(iconv[d.name], d.expConv) {
				bad("extractor_vs_truth", "independent extractor disagrees with the generator's ground truth (harness fault)", fmt.Sprintf("%s: extractor=%q truth=%q", d.name, iconv[d.name], d.expConv))
				return
			}
			for m, exp := range d.expMeth {
				if !eqLines(imeth[d.name][m], exp) {
					bad("extractor_vs_truth", "independent extractor disagrees with the generator's ground truth on a method (harness fault)", fmt.Sprintf("%s.%s: extractor=%q truth=%q", d.name, m, imeth[d.name][m], exp))
					return
				}
			}
		}
		// observer 2: goverter's public API
		outs, hres := runInproc(e, helper, map[string]any{"dir": root, "patterns": []string{"./" + fc.pkg}, "buildTags": "goverter", "constraint": "!goverter", "variants": []inprocVariant{{Name: "v"}}, "mode": "rawlines"}, 2*time.Minute)
		got := map[string]rawConv{}
		for _, o := range outs {
			if o.Stage == "rawlines" {
				var rc rawConv
				if json.Unmarshal([]byte(o.Err), &rc) == nil {
					key := rc.InterfaceName
					if key == "" {
						for m := range rc.Methods {
							key = m
						}
					}
					got[key] = rc
				}
			} else if o.Err != "" || o.Panic != "" {
				bad("parsedocs_failed", "comments.ParseDocs failed on a valid layout: "+firstLine(o.Err+o.Panic), o.Err+o.Panic+hres.Stderr)
				return
			}
		}
		if len(got) != len(fc.decls) {
			bad("converter_set", fmt.Sprintf("goverter recognised %d converters, the layout declares %d", len(got), len(fc.decls)), fmt.Sprintf("recognised=%v", keysOfRaw(got)))
		}
		for _, d := range fc.decls {
			rc, ok := got[d.name]
			if !ok {
				bad("converter_missed", fmt.Sprintf("declaration with an attached %s marker was not recognised", d.kind), d.name)
				continue
			}
			if !eqLines(rc.Converter.Lines, d.expConv) {
				bad("converter_lines", "setting lines of a declaration differ from the attached goverter: lines", fmt.Sprintf("%s: goverter=%q expected=%q", d.name, rc.Converter.Lines, d.expConv))
			}
			for m, exp := range d.expMeth {
				if !eqLines(rc.Methods[m].Lines, exp) {
					bad("method_lines", "setting lines of a method/variable differ from the attached goverter: lines", fmt.Sprintf("%s.%s: goverter=%q expected=%q", d.name, m, rc.Methods[m].Lines, exp))
				}
			}
			res.nts = append(res.nts, strings.Join(d.expConv, "|")+"||"+fmt.Sprint(d.expMeth))
		}
		// observer 3: the CLI through its effect
		gr := runGen(e, bin, dir, dir, []string{"gen", "."}, nil)
		if gr.Exit != 0 {
			bad("cli_failed", "CLI rejected a layout whose attached settings are valid: "+core.Classify(gr.Stderr)+": "+firstLine(gr.Stderr), gr.Stderr)
			return
		}
		var expFiles []string
		for _, d := range fc.decls {
			expFiles = append(expFiles, filepath.Clean(d.outFile))
		}
		sort.Strings(expFiles)
		if gotFiles := keysOf(gr.Files); !eqLines(gotFiles, expFiles) {
			bad("effect_files", "written files differ from the attached output:file settings (a decoy took effect or a setting was lost)", fmt.Sprintf("written=%v expected=%v", gotFiles, expFiles))
		}
		for _, d := range fc.decls {
			body := gr.Files[filepath.Clean(d.outFile)]
			if strings.Contains(body, "Decoy") {
				bad("effect_decoy", "a decoy name appears in the output", head(body, 800))
			}
			if d.comment != "" && !strings.Contains(body, d.comment) {
				bad("effect_value", "the values of the output:raw settings do not appear as written (leading blanks of a value lost, or one of two identical adjacent setting lines dropped)", "want line: "+d.comment+"\n"+head(body, 800))
			}
			if d.kind == "iface" && !strings.Contains(body, "type "+d.implName+" struct{}") {
				bad("effect_name", "the attached name setting did not take effect", head(body, 800))
			}
			if strings.Contains(body, ".Skip = ") {
				bad("effect_ignore", "the attached ignore setting did not take effect", head(body, 800))
			}
			if !strings.Contains(body, ".V = ") || !strings.Contains(body, ".W = ") {
				bad("effect_decoy_ignore", "a decoy ignore (detached/trailing comment) took effect: field not assigned", head(body, 800))
			}
		}
		if i%31 == 0 {
			res.samp = map[string]any{"file": fc.pkg + "/input.go", "crlf": fc.crlf, "declarations": len(fc.decls), "first_decl_lines": fc.decls[0].expConv, "source_head": head(fc.src, 400)}
		}
	})
	for i := range results {
		rep.Evaluations++
		for _, v := range results[i].viols {
			if v.Kind == "extractor_vs_truth" || v.Kind == "generator" {
				rep.Inconclusive = append(rep.Inconclusive, v.Summary+": "+head(v.Detail, 300))
				continue
			}
			rep.Violation(v)
		}
		for _, nt := range results[i].nts {
			rep.NonTrivial(nt)
		}
		if results[i].samp != nil {
			rep.Sample(results[i].samp)
		}
	}
	c19WrongKind(e, rep, bin, root)
	c19GroupOrder(e, rep, bin, root)
	c19Custom(e, rep, bin, root, rand.New(rand.NewSource(e.Seed*7+3)), tierN(e, 30, 400))
	return rep.Finish()
}

func keysOfRaw(m map[string]rawConv) []string {
	var k []string
	for x := range m {
		k = append(k, x)
	}
	sort.Strings(k)
	return k
}

// c19WrongKind: a marker on the wrong kind of declaration is an error.
func c19WrongKind(e *core.Env, rep *core.Report, bin, root string) {
	cases := map[string]string{
		"conv_on_var":    "// goverter:converter\nvar X = 1\n",
		"conv_on_const":  "// goverter:converter\nconst X = 1\n",
		"conv_on_struct": "// goverter:converter\ntype X struct{}\n",
		"conv_on_alias":  "// goverter:converter\ntype X = int\n",
		"vars_on_type":   "// goverter:variables\ntype X interface{ M(int) int }\n",
		"vars_on_const":  "// goverter:variables\nconst X = 1\n",
		"conv_on_group2": "// goverter:converter\ntype (\n\tA interface{ M(int) int }\n\tB interface{ N(int) int }\n)\n",
		"vars_non_func":  "// goverter:variables\nvar (\n\tX int\n)\n",
		"conv_on_func":   "// goverter:converter\nfunc F(a int) int { return a }\n",
		"vars_on_func":   "// goverter:variables\nfunc F(a int) int { return a }\n",
		// the marker is not the first line of the doc comment
		"conv_on_func_later":   "// F converts.\n//\n// goverter:converter\nfunc F(a int) int { return a }\n",
		"vars_on_func_later":   "// F converts.\n// goverter:extend X\n// goverter:variables\nfunc F(a int) int { return a }\n",
		"conv_on_method_later": "type T struct{}\n\n// M converts.\n// goverter:converter\nfunc (T) M(a int) int { return a }\n",
		"conv_on_var_later":    "// X is a value.\n// goverter:converter\nvar X = 1\n",
		"conv_on_struct_later": "// X is a struct.\n//\n//goverter:converter\ntype X struct{}\n",
		"vars_on_type_block":   "/*\nX is an interface.\ngoverter:variables\n*/\ntype X interface{ M(int) int }\n",
		// markers on single declarations inside a parenthesized block
		"vars_on_valuespec":                 "var (\n\t// goverter:variables\n\tConv func(a int) int\n)\n",
		"conv_on_valuespec":                 "var (\n\t// goverter:converter\n\tX = 1\n)\n",
		"conv_on_constspec":                 "const (\n\t// goverter:converter\n\tX = 1\n\tY = 2\n)\n",
		"vars_on_constspec":                 "const (\n\tX = 1\n\t// goverter:variables\n\tY = 2\n)\n",
		"vars_on_typespec":                  "type (\n\t// goverter:variables\n\tX interface{ M(int) int }\n)\n",
		"bogus_on_typespec_of_marked_group": "// goverter:converter\ntype (\n\t// goverter:bogusSetting x\n\tX interface{ M(int) int }\n)\n",
		"conv_on_import":                    "// goverter:converter\nimport \"fmt\"\n\nvar _ = fmt.Sprint\n",
	}
	var names []string
	for n := range cases {
		names = append(names, n)
	}
	sort.Strings(names)
	for _, n := range names {
		dir := filepath.Join(root, "w_"+n)
		os.MkdirAll(dir, 0o755)
		os.WriteFile(filepath.Join(dir, "input.go"), []byte("package w\n\n"+cases[n]), 0o644)
		gr := runGen(e, bin, dir, dir, []string{"gen", "."}, nil)
		rep.Evaluations++
		rep.NonTrivial("wrongkind|" + n)
		if gr.Exit != 1 || strings.TrimSpace(gr.Stderr) == "" {
			rep.Violation(&core.Viol{Kind: "wrong_kind_accepted", Case: n, Summary: fmt.Sprintf("marker on the wrong kind of declaration (%s) is not an error (exit %d)", n, gr.Exit), Detail: cases[n] + "\nstderr: " + gr.Stderr + "\nfiles: " + fmt.Sprint(keysOf(gr.Files)), Dir: dir, Tags: []string{"wrongkind:" + n}})
		}
	}
}

// c19Custom: doc comments of custom functions (goverter:context) are read per function and per package path,
// in every comment layout; observed through the CLI's effect (argument roles) and the Go compiler.
func c19Custom(e *core.Env, rep *core.Report, bin, root string, r *rand.Rand, n int) {
	type cc struct {
		name string
		dir  string
		note string
	}
	var cases []cc
	for i := 0; i < n; i++ {
		name := fmt.Sprintf("x%04d", i)
		dir := filepath.Join(root, name)
		ctxDoc := func(param, decoy string) string {
			doc, _ := docGroup(r, "", []string{"context " + param}, "context "+decoy)
			return doc
		}
		// package a/util: two annotated functions in one file, each with its own context parameter name
		aUtil := "package util\n\ntype SA struct{ V int }\ntype TA struct{ V int }\ntype SG struct{ V int }\ntype TG struct{ V int }\ntype CtxT struct{ N int }\n\n" +
			ctxDoc("c", "s") + "func Conv(s SA, c CtxT) TA { return TA{V: s.V + c.N} }\n\n" +
			"// goverter:context k\n\n" + // detached decoy
			ctxDoc("k", "c") + "func G(c SG, k CtxT) TG { return TG{V: c.V + k.N} } // goverter:context c\n\n" +
			"// Plain has no settings.\nfunc Plain(c CtxT) int { return c.N }\n"
		// package b/util (same package NAME, other path): a function called Conv whose parameter c is the source
		bUtil := "package util\n\ntype SB struct{ V int }\ntype TB struct{ V int }\n\n// Conv converts; its parameter c is the source.\nfunc Conv(c SB) TB { return TB{V: c.V} }\n\n" +
			"type SK struct{ V int }\ntype TK struct{ V int }\n\n// G here takes k as the source.\nfunc G(k SK) TK { return TK{V: k.V} }\n"
		// a METHOD that happens to have the name of a custom function: its doc comment is attached to the method, not to the function
		meth := "\ntype Helper struct{}\n\n// goverter:context c\nfunc (Helper) Conv(c SB) TB { return TB{V: -1} }\n\n// goverter:context k\nfunc (*Helper) G(k SK) TK { return TK{V: -1} }\n"
		if r.Intn(2) == 0 {
			bUtil += meth
		} else {
			bUtil = strings.Replace(bUtil, "// Conv converts;", strings.TrimPrefix(meth, "\n")+"\n// Conv converts;", 1)
			bUtil = strings.Replace(bUtil, "type Helper struct{}", "", 1) + "\ntype Helper struct{}\n"
		}
		first, second := "a", "b"
		if r.Intn(2) == 0 {
			first, second = "b", "a"
		}
		conv := fmt.Sprintf(`package conv

import (
	autil "vcase/%[1]s/a/util"
	butil "vcase/%[1]s/b/util"
)

type WA struct{ F autil.SA; G autil.SG }
type WTA struct{ F autil.TA; G autil.TG }
type WB struct{ F butil.SB; K butil.SK }
type WTB struct{ F butil.TB; K butil.TK }

// goverter:converter
// goverter:extend vcase/%[1]s/%[2]s/util:Conv vcase/%[1]s/%[2]s/util:G
// goverter:extend vcase/%[1]s/%[3]s/util:Conv vcase/%[1]s/%[3]s/util:G
type Converter interface {
	// goverter:context ctx
	MA(source WA, ctx autil.CtxT) WTA
	MB(source WB) WTB
}

type SL struct{ V int }
type TL struct{ V int }

// localConv is an UNEXPORTED custom function of the output package of the variables block below.
// goverter:context c
func localConv(s SL, c autil.CtxT) TL { return TL{V: s.V + c.N} }

// goverter:variables
// goverter:extend localConv
var (
	// goverter:context ctx
	ML func(source []SL, ctx autil.CtxT) []TL
)
`, name, first, second)
		writeFiles(dir, map[string]string{"a/util/util.go": aUtil, "b/util/util.go": bUtil, "conv/conv.go": conv})
		cases = append(cases, cc{name: name, dir: dir, note: first + " before " + second})
	}
	type res struct{ viol *core.Viol }
	results := make([]res, len(cases))
	core.Parallel(len(cases), func(i int) {
		c := cases[i]
		gr := runGen(e, bin, c.dir, c.dir, []string{"gen", "./conv"}, nil)
		src, _ := os.ReadFile(filepath.Join(c.dir, "a/util/util.go"))
		if gr.Exit != 0 {
			results[i].viol = &core.Viol{Kind: "custom_function_comments", Case: c.name, Summary: "goverter:context lines attached to custom functions were not applied per function / per package: " + core.Classify(gr.Stderr) + ": " + firstLine(gr.Stderr),
				Detail: c.note + "\n" + gr.Stderr + "\n--- a/util/util.go ---\n" + string(src), Dir: c.dir}
			return
		}
		body := gr.Files["conv/generated/generated.go"]
		// the context must be passed as second argument of a/util.Conv and a/util.G, b/util's functions take only the source
		okA := strings.Contains(body, ".Conv(source.F, context)") && strings.Contains(body, ".G(source.G, context)")
		okB := strings.Contains(body, ".Conv(source.F)") && strings.Contains(body, ".G(source.K)")
		if local := gr.Files["conv/conv.gen.go"]; !strings.Contains(local, "localConv(source[i], context)") {
			okB = false
			body += "\n--- conv/conv.gen.go ---\n" + local
		}
		if !okA || !okB {
			results[i].viol = &core.Viol{Kind: "custom_function_roles", Case: c.name, Summary: "custom functions are called with the wrong argument roles", Detail: c.note + "\n" + body + "\n--- a/util/util.go ---\n" + string(src), Dir: c.dir}
		}
	})
	for i := range results {
		rep.Evaluations++
		if results[i].viol != nil {
			rep.Violation(results[i].viol)
		}
		rep.NonTrivial("custom|" + cases[i].name)
	}
	rep.Extra["custom_function_layouts"] = len(cases)
}

// c19GroupOrder: a marked `type ( ... )` block has two attached doc comments (the block's and the type's); their
// goverter: lines are applied in source order, so the later line wins for settings that overwrite each other.
func c19GroupOrder(e *core.Env, rep *core.Report, bin, root string) {
	progs := map[string][2]string{
		// name -> source, struct name expected in the output
		"block_then_type": {"// goverter:converter\n// goverter:name First\ntype (\n\t// goverter:name Second\n\tX interface{ M(source int) int }\n)\n", "Second"},
		"type_only":       {"// goverter:converter\ntype (\n\t// goverter:name OnlyType\n\tX interface{ M(source int) int }\n)\n", "OnlyType"},
		"block_only":      {"// goverter:converter\n// goverter:name OnlyBlock\ntype (\n\t// X converts.\n\tX interface{ M(source int) int }\n)\n", "OnlyBlock"},
		"one_comment":     {"// goverter:converter\n// goverter:name First\n// goverter:name Second\ntype X interface{ M(source int) int }\n", "Second"},
	}
	var names []string
	for n := range progs {
		names = append(names, n)
	}
	sort.Strings(names)
	for _, n := range names {
		dir := filepath.Join(root, "g_"+n)
		os.MkdirAll(dir, 0o755)
		os.WriteFile(filepath.Join(dir, "input.go"), []byte("package w\n\n"+progs[n][0]), 0o644)
		gr := runGen(e, bin, dir, dir, []string{"gen", "."}, nil)
		rep.Evaluations++
		body := gr.Files["generated/generated.go"]
		if gr.Exit != 0 || !strings.Contains(body, "type "+progs[n][1]+" struct") {
			rep.Violation(&core.Viol{Kind: "source_order", Case: "group_" + n, Summary: fmt.Sprintf("settings of the two doc comments of a marked type block are not applied in source order (want struct %s, exit %d)", progs[n][1], gr.Exit), Detail: progs[n][0] + "\n" + gr.Stderr + "\n" + body, Dir: dir, Tags: []string{"grouporder:" + n}})
			continue
		}
		rep.NonTrivial("grouporder|" + n)
	}
}

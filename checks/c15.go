package checks

import (
	"fmt"
	"math/rand"
	"os"
	"os/exec"
	"path/filepath"
	"regexp"
	"sort"
	"strings"
	"time"

	"verif/internal/core"
)

func init() { Registry["C15"] = C15 }

type c15Conv struct {
	pkgDir   string // package directory relative to the scenario root
	name     string
	vars     bool   // goverter:variables block instead of an interface
	fileForm string // default rel parent abs cwd same
	pkgForm  string // absent path pathname name
	existing string // name of a pre-existing package at the target dir ("" = none)
	// model
	outPath string // absolute expected path
	clause  string // expected package clause ("" = not judged)
	pkgID   string // package identity for the same-file agreement rule
	lines   []string
	varName string // name of the function variable of a variables block (default Convert<name>)
}

var nonAlnum = regexp.MustCompile(`[^a-z0-9]`)

// normalisePkg is the documented normalisation of a directory name into a package name.
func normalisePkg(last string) string {
	a := nonAlnum.ReplaceAllString(strings.ToLower(last), "")
	for len(a) > 0 && a[0] >= '0' && a[0] <= '9' {
		a = a[1:]
	}
	return a
}

// C15: each converter lands in the configured file and package; nothing else is written.
func C15(e *core.Env) int {
	rep := core.NewReport(e, "exploration")
	rep.Rule = "scenarios of 1-3 input packages (nested directories) with 1-4 converters (interfaces and variables blocks) whose output:file is default/relative/parent/absolute/@cwd/same-package and whose output:package is absent/PATH/PATH:NAME/:NAME, with and without a pre-existing package at the target directory, some sharing one file (agreeing or disagreeing on the package), invoked from the module root, from a sub-directory, through an absolute -cwd from outside and through a relative -cwd (`-cwd ..`) from a sub-directory; every run is the real CLI under strace: the set of created/modified paths must equal the layout model's set, each file must carry the model's package clause, files are opened with mode 0644 and directories created with 0755 (syscall arguments), shared files parse and the module builds; disagreeing converters must fail with exit 1 and write nothing; non-trivial = successful run whose written set was compared; distinct = (forms, invocation, existing-package) tuple"
	rep.Assumptions = []string{"layout model (checks/c15.go) written from docs/reference/output.md", "strace syscall arguments show the requested mode before umask", "output:package PATH is kept consistent with the file location (inconsistent PATH is not judged)"}
	rep.Floor = tierN(e, 15, 200)
	bin, err := e.BuildCLI("plain")
	if err != nil {
		rep.Inconclusive = append(rep.Inconclusive, err.Error())
		return rep.Finish()
	}
	root := filepath.Join(e.Scratch, "c15")
	os.MkdirAll(root, 0o755)
	os.WriteFile(filepath.Join(root, "go.mod"), []byte("module vcase\n\ngo 1.22\n"), 0o644)
	outside := filepath.Join(e.Scratch, "outside")
	os.MkdirAll(outside, 0o755)
	n := tierN(e, 120, 2500)
	r := rand.New(rand.NewSource(e.Seed*69621 + 15))
	fileForms := []string{"default", "default", "rel", "parent", "abs", "cwd", "same"}
	pkgForms := []string{"absent", "absent", "path", "pathname", "name"}
	pkgDirs := []string{"a", "b/c", "My-Pkg_2/in"}
	type scen struct {
		name       string
		convs      []*c15Conv
		invoke     string // root sub cwdflag
		conflict   bool
		globalFile bool
	}
	var scens []scen
	for i := 0; i < n; i++ {
		s := scen{name: fmt.Sprintf("l%04d", i), invoke: []string{"root", "sub", "cwdflag"}[i%3]}
		if s.invoke == "cwdflag" && (i/3)%2 == 1 {
			s.invoke = "cwdrel"
		}
		nconv := 1 + r.Intn(4)
		for k := 0; k < nconv; k++ {
			c := &c15Conv{pkgDir: pkgDirs[r.Intn(len(pkgDirs))], name: fmt.Sprintf("C%c", 'A'+k), vars: r.Intn(5) == 0,
				fileForm: fileForms[r.Intn(len(fileForms))], pkgForm: pkgForms[r.Intn(len(pkgForms))]}
			if r.Intn(4) == 0 {
				c.existing = []string{"weirdname", "other", "pkg9"}[r.Intn(3)]
			}
			s.convs = append(s.convs, c)
		}
		if i < 6 {
			// pinned shapes of a repaired defect: a variables block whose output:file points into another directory
			s.convs[0].vars = true
			s.convs[0].fileForm = []string{"rel", "parent", "abs", "cwd", "rel", "parent"}[i]
			s.convs[0].pkgForm = "absent"
			s.convs[0].existing = []string{"", "weirdname", "", "other", "pkg9", ""}[i]
		}
		// sometimes force two converters into one file
		if nconv >= 2 && r.Intn(3) == 0 {
			s.convs[1].pkgDir = s.convs[0].pkgDir
			s.convs[1].fileForm = "sharedwith0"
			s.convs[1].vars = false
			s.convs[0].vars = false
			if s.convs[0].fileForm == "same" {
				s.convs[0].fileForm = "rel"
			}
			if r.Intn(3) == 0 {
				s.conflict = true
			}
		}
		if i == 9 || i == 14 || (i > 20 && i%50 == 4) {
			// fixed shape: two variables blocks of different packages, both with a variable called Convert, merged
			// into one file elsewhere (the variables live in their own packages, the names do not clash)
			for len(s.convs) < 2 {
				s.convs = append(s.convs, &c15Conv{name: fmt.Sprintf("C%c", 'A'+len(s.convs)), fileForm: "default", pkgForm: "absent"})
			}
			s.convs[0].pkgDir, s.convs[1].pkgDir = "a", "b/c"
			s.convs[0].vars, s.convs[1].vars = true, true
			s.convs[0].varName, s.convs[1].varName = "Convert", "Convert"
			s.convs[0].fileForm, s.convs[1].fileForm = []string{"cwd", "parent"}[i%2], "sharedwith0"
			s.convs[0].pkgForm, s.convs[0].existing, s.convs[1].existing = "absent", "", ""
			s.conflict = false
		}
		if i == 8 || i == 13 || (i > 20 && i%50 == 3) {
			// fixed shape for the CLI-level output:package PATH:NAME below: every converter overrides it with a
			// path-only line and writes where no package exists yet (the clause must not keep the CLI name)
			for _, c := range s.convs {
				c.pkgForm, c.existing = "path", ""
			}
			s.conflict = false
		}
		if i%7 == 5 {
			// a CLI-level output:file applies to every converter relative to its own declaring file; the packages
			// already at those locations have names that differ from their directory
			s.globalFile = true
			s.conflict = false
			seenDir := map[string]bool{}
			var keep []*c15Conv
			for k, c := range s.convs {
				c.fileForm, c.pkgForm, c.vars = "global", "absent", false
				c.existing = []string{"alphapkg", "betapkg", "gammapkg", "deltapkg"}[k%4]
				if !seenDir[c.pkgDir] {
					seenDir[c.pkgDir] = true
					keep = append(keep, c)
				}
			}
			s.convs = keep
		}
		scens = append(scens, s)
	}
	type result struct {
		viols     []*core.Viol
		nt        string
		sample    map[string]any
		events    int
		ok        bool
		dir       string
		buildable bool
	}
	results := make([]result, len(scens))
	core.Parallel(len(scens), func(i int) {
		s := scens[i]
		res := &results[i]
		dir := filepath.Join(root, s.name)
		res.dir = dir
		var workdir, procdir string
		var args []string
		switch s.invoke {
		case "root":
			procdir, workdir = dir, dir
			args = []string{"gen", "./..."}
		case "sub":
			procdir, workdir = filepath.Join(dir, "a"), filepath.Join(dir, "a")
			args = []string{"gen", "./...", "../b/...", "../My-Pkg_2/..."}
		case "cwdrel":
			// a RELATIVE -cwd, given from a sub-directory: @cwd/ and the patterns refer to the directory it names
			procdir, workdir = filepath.Join(dir, "a"), dir
			args = []string{"gen", "-cwd", "..", "./..."}
		default:
			procdir, workdir = outside, dir
			args = []string{"gen", "-cwd", dir, "./..."}
		}
		// always create all package dirs so that patterns match
		srcs := map[string]*strings.Builder{}
		for _, pd := range pkgDirs {
			sb := &strings.Builder{}
			fmt.Fprintf(sb, "package %s\n\ntype Keep%s struct{}\n\n", normalisePkg(filepath.Base(pd)), normalisePkg(filepath.Base(pd)))
			srcs[pd] = sb
		}
		// a CLI-level output:package with a NAME that every converter overrides with its own PATH (without name):
		// the converter-level line replaces the CLI one completely
		cliPkg := ""
		if i%5 == 3 {
			all := true
			for _, c := range s.convs {
				if c.pkgForm != "path" && c.pkgForm != "pathname" {
					all = false
				}
			}
			if all && !s.conflict {
				cliPkg = "output:package vcase/" + s.name + "/elsewhere:globalname"
			}
		}
		expected := map[string]string{} // abs path -> clause
		pkgIDs := map[string]map[string]bool{}
		existingAt := map[string]string{}
		var formsKey []string
		// pass A: where does every converter write?
		settings := make([]string, len(s.convs))
		for k, c := range s.convs {
			declDir := filepath.Join(dir, c.pkgDir)
			fname := strings.ToLower(c.name)
			switch c.fileForm {
			case "default":
				if c.vars {
					// <file>.gen.go next to the declaring file: only the extension is replaced
					c.outPath = filepath.Join(declDir, strings.TrimSuffix(declFile(s.name, c.pkgDir), ".go")+".gen.go")
				} else {
					c.outPath = filepath.Join(declDir, "generated", "generated.go")
				}
			case "rel":
				settings[k] = "./Out-Dir9/" + fname + ".go"
				c.outPath = filepath.Join(declDir, "Out-Dir9", fname+".go")
			case "parent":
				settings[k] = "../shared/" + fname + ".go"
				c.outPath = filepath.Join(filepath.Dir(declDir), "shared", fname+".go")
			case "abs":
				c.outPath = filepath.Join(dir, "absout", "x"+fmt.Sprint(k), fname+".go")
				settings[k] = c.outPath
			case "cwd":
				settings[k] = "@cwd/cwdout/" + fname + ".go"
				c.outPath = filepath.Join(workdir, "cwdout", fname+".go")
			case "global":
				c.outPath = filepath.Join(declDir, "out", "gen.go")
			case "same":
				settings[k] = "./" + fname + "_gen.go"
				c.outPath = filepath.Join(declDir, fname+"_gen.go")
			case "sharedwith0":
				c0 := s.convs[0]
				c.outPath = c0.outPath
				rel, _ := filepath.Rel(declDir, c0.outPath)
				settings[k] = "./" + rel
				if !s.conflict {
					c.pkgForm = c0.pkgForm
				} else {
					c.pkgForm = "pathname"
				}
			}
		}
		// per output directory: the package that already exists there (one decision per directory) and one custom name
		isDeclDir := map[string]string{}
		for _, pd := range pkgDirs {
			isDeclDir[filepath.Join(dir, pd)] = normalisePkg(filepath.Base(pd))
		}
		for _, c := range s.convs {
			outDir := filepath.Dir(c.outPath)
			if n, ok := isDeclDir[outDir]; ok {
				existingAt[outDir] = n
			} else if _, ok := existingAt[outDir]; !ok && c.existing != "" {
				existingAt[outDir] = c.existing
			}
		}
		dirClauses := map[string]map[string]bool{}
		// pass B: settings, expected clause
		for k, c := range s.convs {
			declDir := filepath.Join(dir, c.pkgDir)
			pkgName := normalisePkg(filepath.Base(c.pkgDir))
			if settings[k] != "" {
				c.lines = append(c.lines, "output:file "+settings[k])
			}
			outDir := filepath.Dir(c.outPath)
			relOut, _ := filepath.Rel(root, outDir)
			importPath := "vcase/" + filepath.ToSlash(relOut)
			// one custom name per directory (several names in one directory would be the user's mistake)
			custom := "cust" + normalisePkg(filepath.Base(outDir)) + fmt.Sprint(len(outDir)%7)
			if c.fileForm == "sharedwith0" && s.conflict {
				custom += "other"
			}
			same := outDir == declDir
			_ = pkgName
			c.existing = existingAt[outDir]
			given := ""
			switch c.pkgForm {
			case "path":
				c.lines = append(c.lines, "output:package "+importPath)
			case "pathname":
				c.lines = append(c.lines, "output:package "+importPath+":"+custom)
				given = custom
			case "name":
				c.lines = append(c.lines, "output:package :"+custom)
				given = custom
			}
			switch {
			case given != "":
				c.clause = given
			case c.existing != "":
				c.clause = c.existing
			default:
				c.clause = normalisePkg(filepath.Base(outDir))
			}
			_ = same
			c.pkgID = c.clause
			if pkgIDs[c.outPath] == nil {
				pkgIDs[c.outPath] = map[string]bool{}
			}
			pkgIDs[c.outPath][c.pkgForm+"|"+c.clause] = true
			expected[c.outPath] = c.clause
			if dirClauses[outDir] == nil {
				dirClauses[outDir] = map[string]bool{}
			}
			dirClauses[outDir][c.clause] = true
			if c.existing != "" {
				dirClauses[outDir][c.existing] = true
			}
			formsKey = append(formsKey, c.fileForm+"/"+c.pkgForm+"/"+fmt.Sprint(c.existing != "")+"/"+fmt.Sprint(c.vars))
			sb := srcs[c.pkgDir]
			// the nested named struct makes goverter emit a helper next to the converter
			fmt.Fprintf(sb, "type In%[1]s struct{ V int; N NestIn%[1]s }\ntype NestIn%[1]s struct{ X int }\ntype Out%[1]s struct{ V int; N NestOut%[1]s }\ntype NestOut%[1]s struct{ X int }\n\n", c.name)
			if c.vars {
				sb.WriteString("// goverter:variables\n")
				for _, l := range c.lines {
					sb.WriteString("// goverter:" + l + "\n")
				}
				vn := c.varName
				if vn == "" {
					vn = "Convert" + c.name
				}
				fmt.Fprintf(sb, "var (\n\t%s func(source In%s) Out%s\n)\n\n", vn, c.name, c.name)
			} else {
				sb.WriteString("// goverter:converter\n")
				for _, l := range c.lines {
					sb.WriteString("// goverter:" + l + "\n")
				}
				fmt.Fprintf(sb, "type %s interface {\n\tConvert(source In%s) Out%s\n}\n\n", c.name, c.name, c.name)
			}
		}
		// the module can only build when every output directory ends up with ONE package name
		buildable := true
		for _, cl := range dirClauses {
			if len(cl) > 1 {
				buildable = false
			}
		}
		res.buildable = buildable
		files := map[string]string{}
		for pd, sb := range srcs {
			files[pd+"/"+declFile(s.name, pd)] = sb.String()
		}
		writeFiles(dir, files)
		for d, name := range existingAt {
			isDecl := false
			for _, pd := range pkgDirs {
				if filepath.Join(dir, pd) == d {
					isDecl = true
				}
			}
			if !isDecl {
				os.MkdirAll(d, 0o755)
				os.WriteFile(filepath.Join(d, "existing.go"), []byte("package "+name+"\n\ntype Existing struct{}\n"), 0o644)
			}
		}
		if cliPkg != "" {
			// insert the global setting after "gen"
			args = append([]string{args[0], "-g", cliPkg}, args[1:]...)
		}
		if s.globalFile {
			args = append([]string{args[0], "-global", "output:file ./out/gen.go"}, args[1:]...)
		}
		before := core.SnapshotTree(dir)
		cli, evs, err := core.RunStraced(bin, args, core.RunOpts{Dir: procdir, Env: e.GoEnv(), Timeout: 2 * time.Minute}, dir, nil)
		if err != nil {
			return
		}
		after := core.SnapshotTree(dir)
		res.events = len(evs)
		det := func() string {
			var ev []string
			for _, x := range evs {
				ev = append(ev, x.String())
			}
			return fmt.Sprintf("invoke=%s args=%v\nforms=%v conflict=%v\nexpected=%v\nexit=%d stderr=%s\nevents=%v\ndiff=%v", s.invoke, args, formsKey, s.conflict, expected, cli.Exit, head(cli.Stderr, 1200), ev, before.Diff(after))
		}
		bad := func(kind, sum string) {
			res.viols = append(res.viols, &core.Viol{Kind: kind, Case: s.name, Summary: sum, Detail: det(), Dir: dir, Tags: []string{"invoke:" + s.invoke}})
		}
		// does the model expect a conflict?
		conflict := false
		for _, ids := range pkgIDs {
			if len(ids) > 1 {
				conflict = true
			}
		}
		if conflict {
			// converters disagree on the package of one file: generation must fail and write nothing
			if s.conflict {
				if cli.Exit != 1 {
					bad("conflict_accepted", fmt.Sprintf("two converters select one file with different packages, exit=%d", cli.Exit))
				}
				if len(before.Diff(after)) > 0 {
					bad("write_on_failure", "conflicting run changed the tree")
				}
				res.nt = "conflict|" + s.invoke
			}
			return
		}
		if cli.Exit != 0 {
			// the model does not predict a failure: record, do not judge (e.g. :NAME edge cases)
			res.sample = map[string]any{"scenario": s.name, "unexpected_failure": core.Classify(cli.Stderr), "forms": formsKey, "stderr": head(cli.Stderr, 300)}
			if c15MustSucceed(s.convs) {
				bad("unexpected_failure", "layout that the model considers valid was rejected: "+core.Classify(cli.Stderr)+": "+firstLine(cli.Stderr))
			}
			return
		}
		// written set == model set
		created := map[string]bool{}
		for _, d := range before.Diff(after) {
			parts := strings.SplitN(d, " ", 2)
			if strings.HasSuffix(parts[1], "/") {
				continue
			}
			created[filepath.Join(dir, parts[1])] = true
		}
		for p := range expected {
			if !created[p] {
				bad("missing_file", fmt.Sprintf("expected output %s was not written (%s)", relTo(dir, p), strings.Join(formsKey, " ")))
			}
		}
		for p := range created {
			if _, ok := expected[p]; !ok {
				bad("unexpected_file", fmt.Sprintf("file outside the model was written: %s", relTo(dir, p)))
			}
		}
		for p, clause := range expected {
			b, err := os.ReadFile(p)
			if err != nil {
				continue
			}
			ff := core.Analyze(p, b)
			if ff.ParseErr != "" {
				bad("unparsable", "emitted file does not parse: "+ff.ParseErr)
				continue
			}
			if clause != "" && ff.Package != clause {
				bad("package_clause", fmt.Sprintf("package clause %q, model says %q (%s)", ff.Package, clause, strings.Join(formsKey, " ")))
			}
		}
		for _, ev := range evs {
			if ev.Fail {
				continue
			}
			switch ev.Op {
			case "openat", "open", "creat":
				if _, ok := expected[ev.Path]; ok && strings.Contains(ev.Flags, "O_CREAT") && ev.Mode != "0644" {
					bad("file_mode", fmt.Sprintf("output file opened with mode %s, want 0644", ev.Mode))
				}
				if _, ok := expected[ev.Path]; !ok {
					bad("unexpected_open", fmt.Sprintf("file outside the model opened for writing: %s", relTo(dir, ev.Path)))
				}
			case "mkdir", "mkdirat":
				if ev.Mode != "0755" {
					bad("dir_mode", fmt.Sprintf("directory created with mode %s, want 0755", ev.Mode))
				}
			case "write", "pwrite64":
			default:
				bad("unexpected_syscall", fmt.Sprintf("unexpected mutating syscall %s on %s", ev.Op, relTo(dir, ev.Path)))
			}
		}
		res.ok = true
		sort.Strings(formsKey)
		res.nt = s.invoke + "|" + strings.Join(formsKey, ",")
		if i%29 == 0 {
			var exp []string
			for p, c := range expected {
				exp = append(exp, relTo(dir, p)+" => package "+c)
			}
			sort.Strings(exp)
			res.sample = map[string]any{"scenario": s.name, "invoke": s.invoke, "args": args, "settings": linesOf(s.convs), "model": exp, "fs_events": len(evs)}
		}
	})
	for i := range results {
		rep.Evaluations++
		for _, v := range results[i].viols {
			rep.Violation(v)
		}
		if results[i].nt != "" {
			rep.NonTrivial(results[i].nt)
		}
		if results[i].sample != nil {
			rep.Sample(results[i].sample)
		}
		rep.Count("strace_fs_events", results[i].events)
		if results[i].ok {
			rep.Count("layouts_compared", 1)
		}
	}
	c15Bootstrap(e, rep, bin, root)
	// the merged / relocated files must build together with the user's packages
	cmd := exec.Command("go", "build", "./...")
	cmd.Dir = root
	cmd.Env = e.GoEnv()
	if out, err := cmd.CombinedOutput(); err != nil {
		perScen := map[string]string{}
		for _, l := range strings.Split(string(out), "\n") {
			for i := range scens {
				if strings.Contains(l, "/"+scens[i].name+"/") || strings.HasPrefix(l, scens[i].name+"/") {
					perScen[scens[i].name] += l + "\n"
				}
			}
		}
		for i, s := range scens {
			txt, ok := perScen[s.name]
			if !ok || !results[i].ok || usesNameOnly(s.convs) || !results[i].buildable {
				continue
			}
			rep.Violation(&core.Viol{Kind: "build", Case: s.name, Summary: "module does not build after a successful run: " + compileClass(txt), Detail: txt, Dir: results[i].dir})
		}
		rep.Extra["build_errors_total"] = len(perScen)
	}
	return rep.Finish()
}

func relTo(dir, p string) string {
	r, err := filepath.Rel(dir, p)
	if err != nil {
		return p
	}
	return r
}

func linesOf(cs []*c15Conv) []string {
	var out []string
	for _, c := range cs {
		out = append(out, c.pkgDir+"/"+c.name+": "+strings.Join(c.lines, "; "))
	}
	return out
}

// usesNameOnly: ':NAME' is documented as possibly producing uncompilable code; a custom name inside an
// existing package directory cannot build either.
func usesNameOnly(cs []*c15Conv) bool {
	for _, c := range cs {
		if c.pkgForm == "name" || (c.pkgForm == "pathname" && c.existing != "") {
			return true
		}
	}
	return false
}

// c15MustSucceed: layouts without custom names in existing packages are always valid.
func c15MustSucceed(cs []*c15Conv) bool {
	return !usesNameOnly(cs)
}

// declFile is the name of the declaring file of a package directory in a scenario (names with several dots included).
func declFile(scen, pkgDir string) string {
	names := []string{"input.go", "user.v1.go", "a.b.c.go", "input.go"}
	h := 0
	for _, c := range scen + pkgDir {
		h = h*31 + int(c)
	}
	if h < 0 {
		h = -h
	}
	return names[h%len(names)]
}

// c15Bootstrap: the output directory already holds a hand-written file of a package whose name differs from the
// directory and which refers to the not-yet-generated implementation (so that package does not type-check yet). The
// pattern names the input package only. The generated file must join the existing package, on the first run and on
// the second (when the package has become healthy).
func c15Bootstrap(e *core.Env, rep *core.Report, bin, root string) {
	type bs struct {
		name, outDir, pkgName string
		vars                  bool
	}
	list := []bs{{"boot0", "out", "conv", false}, {"boot1", "gen-v2", "mapping", false}, {"boot2", "internal/impl", "convimpl", false}, {"boot3", "out", "conv", true}}
	for _, b := range list {
		dir := filepath.Join(root, b.name)
		input := "package pkg\n\n// goverter:converter\n// goverter:output:file ./" + b.outDir + "/gen.go\ntype Converter interface {\n\tConvert(source In) Out\n}\n\ntype In struct{ ID int; N Nest }\ntype Nest struct{ X int }\ntype Out struct{ ID int; N NestOut }\ntype NestOut struct{ X int }\n"
		companion := "package " + b.pkgName + "\n\nimport \"vcase/" + b.name + "/pkg\"\n\n// Default uses the generated implementation.\nvar Default pkg.Converter = &ConverterImpl{}\n"
		if b.vars {
			input = "package pkg\n\n// goverter:variables\n// goverter:output:file ./" + b.outDir + "/gen.go\nvar (\n\tConvert func(source In) Out\n)\n\ntype In struct{ ID int; N Nest }\ntype Nest struct{ X int }\ntype Out struct{ ID int; N NestOut }\ntype NestOut struct{ X int }\n"
			companion = "package " + b.pkgName + "\n\n// Helper is hand-written and refers to a generated helper.\nvar Helper = pkgNestToPkgNestOut\n"
		}
		writeFiles(dir, map[string]string{"pkg/input.go": input, "pkg/" + b.outDir + "/default.go": companion})
		for run := 1; run <= 2; run++ {
			rep.Evaluations++
			gr := runGen(e, bin, dir, dir, []string{"gen", "./pkg"}, nil)
			if gr.Exit != 0 {
				rep.Violation(&core.Viol{Kind: "bootstrap", Case: b.name, Summary: fmt.Sprintf("run %d with a not yet compiling companion file in the output package failed: %s", run, core.Classify(gr.Stderr)), Detail: gr.Stderr, Dir: dir})
				break
			}
			got, _ := os.ReadFile(filepath.Join(dir, "pkg", b.outDir, "gen.go"))
			clause := ""
			for _, l := range strings.Split(string(got), "\n") {
				if strings.HasPrefix(l, "package ") {
					clause = strings.TrimPrefix(l, "package ")
					break
				}
			}
			if clause != b.pkgName {
				rep.Violation(&core.Viol{Kind: "package_clause", Case: b.name, Summary: fmt.Sprintf("run %d: generated file has package %q, the existing package at that location is %q", run, clause, b.pkgName), Detail: string(got), Dir: dir})
				break
			}
			rep.NonTrivial(fmt.Sprintf("bootstrap|%s|vars=%v|run%d", b.outDir, b.vars, run))
			if run == 2 {
				cmd := exec.Command("go", "build", "./...")
				cmd.Dir = dir
				cmd.Env = e.GoEnv()
				if out, err := cmd.CombinedOutput(); err != nil {
					rep.Violation(&core.Viol{Kind: "build", Case: b.name, Summary: "module does not build after bootstrapping the output package: " + compileClass(string(out)), Detail: string(out), Dir: dir})
				}
			}
		}
	}
}

package checks

import (
	"fmt"
	"math/rand"
	"path/filepath"
	"sort"
	"strings"

	"verif/internal/core"
	"verif/internal/pgen"
)

func init() {
	Registry["C01"] = C01
	Registry["C18"] = C18
}

// emittedFacts analyses every emitted .go file of a case run.
func emittedFacts(cr *core.CaseRun) []*core.FileFacts {
	var out []*core.FileFacts
	var names []string
	for p := range cr.Written {
		if strings.HasSuffix(p, ".go") {
			names = append(names, p)
		}
	}
	sort.Strings(names)
	for _, p := range names {
		out = append(out, core.Analyze(p, cr.Written[p]))
	}
	return out
}

// checkAPI compares the declarations found in the emitted files with what was declared (from the IR).
func checkAPI(c *pgen.Case, facts []*core.FileFacts) []string {
	var problems []string
	byDir := map[string][]*core.FileFacts{}
	for _, f := range facts {
		byDir[filepath.Dir(f.Path)] = append(byDir[filepath.Dir(f.Path)], f)
		if f.ParseErr != "" {
			problems = append(problems, "emitted file does not parse: "+f.Path+": "+f.ParseErr)
		}
	}
	for _, cv := range c.Convs {
		ffs := byDir[cv.OutPkgPath]
		if len(ffs) == 0 {
			problems = append(problems, fmt.Sprintf("no file emitted into %s for converter %s", cv.OutPkgPath, cv.Name))
			continue
		}
		for _, f := range ffs {
			if cv.OutPkgName != "" && f.ParseErr == "" && f.Package != cv.OutPkgName {
				problems = append(problems, fmt.Sprintf("file %s has package clause %q, the configured/inferred package is %q", filepath.Base(f.Path), f.Package, cv.OutPkgName))
			}
		}
		switch cv.Format {
		case "struct":
			nStruct := 0
			var methods []string
			for _, f := range ffs {
				if k, ok := f.Types[cv.ImplName]; ok {
					nStruct++
					if k != "struct{}" {
						problems = append(problems, fmt.Sprintf("type %s is %s, want empty struct", cv.ImplName, k))
					}
				}
				methods = append(methods, f.Methods[cv.ImplName]...)
			}
			if nStruct != 1 {
				problems = append(problems, fmt.Sprintf("struct %s declared %d times in %s", cv.ImplName, nStruct, cv.OutPkgPath))
			}
			for _, m := range cv.Methods {
				if count(methods, m.Name) != 1 {
					problems = append(problems, fmt.Sprintf("method %s.%s emitted %d times", cv.ImplName, m.Name, count(methods, m.Name)))
				}
			}
		case "function":
			var funcs []string
			for _, f := range ffs {
				funcs = append(funcs, f.Funcs...)
			}
			for _, m := range cv.Methods {
				if count(funcs, m.Name) != 1 {
					problems = append(problems, fmt.Sprintf("function %s emitted %d times", m.Name, count(funcs, m.Name)))
				}
			}
		case "variables":
			var assigns []string
			inits := 0
			for _, f := range ffs {
				if !strings.HasSuffix(f.Path, ".gen.go") {
					continue
				}
				inits += f.InitCount
				assigns = append(assigns, f.InitAssigns...)
			}
			if inits < 1 {
				problems = append(problems, "no init() emitted for the variables block")
			}
			for _, m := range cv.Methods {
				n := 0
				for _, a := range assigns {
					if a == m.Name || strings.HasSuffix(a, "."+m.Name) {
						n++
					}
				}
				if n != 1 {
					problems = append(problems, fmt.Sprintf("variable %s assigned %d times in init()", m.Name, n))
				}
			}
		}
	}
	return problems
}

func count(xs []string, x string) int {
	n := 0
	for _, y := range xs {
		if y == x {
			n++
		}
	}
	return n
}

// c01Corpus is the input product for C01/C18.
func c01Corpus(e *core.Env) []*pgen.Case {
	n := tierN(e, 330, 4000)
	cases := structuralCorpus(e, n, func(i int, o *pgen.StructOpts) {
		o.NValues = 6
		o.Monitors = []string{"value"}
		o.HostilePkgs = i%5 == 4
		o.NConverters = 1
		o.CLIPackage = i%11 == 5
		if i%7 == 3 {
			o.NConverters = 2 + i%2
		}
	})
	return cases
}

// otherCorpora samples the settings-oriented generators (field settings, custom functions, enums, update, default,
// pointer matrix) and their negative programs: whatever goverter accepts of them must compile, too.
func otherCorpora(e *core.Env, per int) []*pgen.Case {
	r := rand.New(rand.NewSource(e.Seed*7907 + 1))
	var cases []*pgen.Case
	sub := func() *rand.Rand { return rand.New(rand.NewSource(r.Int63())) }
	for i := 0; i < per; i++ {
		f := formats[i%3]
		seed := e.Seed*17 + int64(i)
		cases = append(cases, pgen.FieldCase(sub(), fmt.Sprintf("xf%04d", i), pgen.FieldOpts{Format: f, Seed: seed, NValues: 5}))
		cases = append(cases, pgen.CustomCase(sub(), fmt.Sprintf("xc%04d", i), pgen.CustomOpts{Format: f, Seed: seed, NValues: 5, MaxFaults: 2,
			WrapMode: []string{"none", "wrapErrors", "using"}[(i/3)%3], WrapLevel: []string{"conv", "cli"}[(i/9)%2], Fallible: i%2 == 0}))
		cases = append(cases, pgen.GraphCase(sub(), fmt.Sprintf("xg%04d", i), pgen.GraphOpts{Format: f, Seed: seed, NValues: 4, MaxFaults: 2,
			WrapMode: []string{"none", "wrapErrors", "using"}[(i/3)%3]}))
		cases = append(cases, pgen.FuzzMethodSetCase(sub(), fmt.Sprintf("xm%04d", i)), pgen.FuzzMethodSetCase(sub(), fmt.Sprintf("xn%04d", i)))
		ec, _ := pgen.EnumCase(sub(), fmt.Sprintf("xe%04d", i), pgen.EnumOpts{Format: f, Seed: seed, NValues: 5})
		cases = append(cases, ec)
		cases = append(cases, pgen.UpdateCase(sub(), fmt.Sprintf("xu%04d", i), pgen.UpdateOpts{Format: f, Seed: seed, NValues: 9}))
		cases = append(cases, pgen.DefaultCase(sub(), fmt.Sprintf("xd%04d", i), pgen.DefaultOpts{Format: f, Seed: seed, NValues: 8}))
		pc, _ := pgen.PointerCase(sub(), fmt.Sprintf("xp%04d", i), pgen.DefaultOpts{Format: f, Seed: seed, NValues: 5})
		cases = append(cases, pc)
	}
	rename := func(cs []*pgen.Case) []*pgen.Case {
		return cs
	}
	cases = append(cases, rename(pgen.NegativeFieldCases())...)
	cases = append(cases, c06Negatives()...)
	cases = append(cases, c07Negatives()...)
	cases = append(cases, c10Negatives()...)
	return cases
}

// C01: success implies compilable code implementing the declared API.
func C01(e *core.Env) int {
	rep := core.NewReport(e, "exploration")
	rep.Rule = "seeded programs (type shapes incl. recursive/cross-package/unexported-in-same-package, hostile identifier and package names, three output formats, 1-3 converters sharing files/packages, skeleton-changing settings) are generated by the real CLI; every case that goverter reports as success is compiled together with API assertion files written from the generator's IR (interface satisfaction, function types) and a glue package that calls every declared method; the AST monitor checks the declared struct/method/function/init set; non-trivial = goverter succeeded and emitted at least one declaration; distinct = structural fingerprint"
	rep.Assumptions = []string{"Go compiler is the validity oracle", "assertion files are derived from the input IR, not from goverter's output"}
	rep.Floor = tierN(e, 30, 300)
	cases := append(c01Corpus(e), pinnedC01()...)
	cases = append(cases, otherCorpora(e, tierN(e, 25, 300))...)
	p, err := runPipelineOpts(e, "c01", cases, pipeOpts{Execute: true, Asserts: true, Cover: true})
	if err != nil {
		rep.Inconclusive = append(rep.Inconclusive, err.Error())
		return rep.Finish()
	}
	rep.Extra["goverter_statement_coverage_reached_by_this_corpus"] = p.Coverage
	for _, cr := range p.Mod.Cases {
		rep.Evaluations++
		c := cr.Case
		if !cr.Generated {
			rep.Count("not_generated", 1)
			rep.Set("not_generated_reasons", core.Classify(cr.Gen.Stderr))
			continue
		}
		facts := emittedFacts(cr)
		rep.Count("emitted_files", len(facts))
		tags := caseTags(c)
		if !cr.Built {
			rep.Violation(&core.Viol{Kind: "compile", Case: c.Name, Summary: "emitted code does not compile: " + compileClass(cr.BuildErr), Detail: cr.BuildErr, Dir: cr.Dir, Tags: tags, Meta: map[string]any{"features": c.Features}})
		}
		for _, pr := range checkAPI(c, facts) {
			rep.Violation(&core.Viol{Kind: "api", Case: c.Name, Summary: pr, Detail: pr, Dir: cr.Dir, Tags: tags})
		}
		for _, me := range cr.Methods {
			for _, v := range me.Violations {
				if v.Kind == "unassigned_variable" {
					rep.Violation(&core.Viol{Kind: "api", Case: c.Name, Summary: "function variable " + v.Method + " not assigned by the emitted init()", Detail: v.Detail, Dir: cr.Dir, Tags: tags})
				}
			}
			rep.Count("declared_methods_called", 1)
		}
		rep.NonTrivial(c.Fingerprint())
		rep.Set("features_seen", featureString(c))
		for k := range kindsOf(c) {
			rep.Set("type_kinds_seen", k)
		}
		if len(rep.Samples) < 3 && len(facts) > 0 {
			rep.Sample(map[string]any{"case": c.Name, "features": featureString(c), "args": c.Args, "emitted": facts[0].Path, "package": facts[0].Package, "funcs": facts[0].Funcs, "methods": facts[0].Methods, "compiled": cr.Built})
		}
	}
	if p.BatchErr != nil {
		rep.Inconclusive = append(rep.Inconclusive, "batch execution failed: "+p.BatchErr.Error())
	}
	if len(p.Dropped) > 0 {
		rep.Extra["generator_inputs_dropped"] = p.Dropped
	}
	return rep.Finish()
}

// compileClass normalises a compiler diagnostic into a short class (identifiers replaced).
func compileClass(s string) string {
	for _, l := range strings.Split(s, "\n") {
		l = strings.TrimSpace(l)
		if l == "" || strings.HasPrefix(l, "#") {
			continue
		}
		// strip file position
		parts := strings.SplitN(l, ": ", 2)
		if len(parts) == 2 {
			return filepath.Base(strings.SplitN(parts[0], ":", 2)[0]) + ": " + parts[1]
		}
		return l
	}
	return firstLine(s)
}

func pinnedC01() []*pgen.Case {
	return []*pgen.Case{pgen.PinnedPkgShadow("pin_pkg_shadow"), pgen.PinnedHelperRedeclared("pin_helper_redeclared"), pgen.PinnedHelperRedeclaredSpelled("pin_helper_redeclared_sp0", 0), pgen.PinnedHelperRedeclaredSpelled("pin_helper_redeclared_sp1", 1), pgen.PinnedHelperRedeclaredSpelled("pin_helper_redeclared_sp2", 2), pinnedNonComparable("pin_update_noncomparable"), pinnedGlobalFile("pin_global_file"),
		pinnedVarsElsewhere("pin_vars_elsewhere", "../gen/out.go", "vcase/pin_vars_elsewhere/gen"),
		pinnedVarsElsewhere("pin_vars_elsewhere_named", "./sub/out.go", "vcase/pin_vars_elsewhere_named/p/sub:other"),
		pinnedHelperNameClash("pin_helper_clash_func", "// goverter:output:format function\n// goverter:output:file ./p.gen.go\n", false),
		pinnedHelperNameClash("pin_helper_clash_struct", "// goverter:output:file ./p.gen.go\n", false),
		pinnedHelperNameClash("pin_helper_clash_vars", "", true),
		pinnedHelperVsLaterConverter("pin_helper_vs_later_converter_func", "function"), pinnedHelperVsLaterConverter("pin_helper_vs_later_converter_vars", "variables"),
		pinnedUnderlyingLiteral("pin_underlying_ptr_chan_source"),
		pinnedNumberedTemporaries("pin_numbered_temporaries_first", true), pinnedNumberedTemporaries("pin_numbered_temporaries_last", false),
		pinnedSameName("pin_same_impl_name", false), pinnedSameName("pin_same_func_name", true),
		pinnedFuncTypes("pin_func_types"), pinnedChanTypes("pin_chan_types"), pinnedBlankFields("pin_blank_fields"), pinnedSameNameTwoFiles("pin_same_name_two_files")}
}

// pinnedSameNameTwoFiles: the same identifier declared by two converters that write DIFFERENT files of one package.
func pinnedSameNameTwoFiles(name string) *pgen.Case {
	files := map[string]string{}
	for _, pk := range []string{"alpha", "beta"} {
		files[pk+"/input.go"] = "package " + pk + "\n\ntype In struct{ V int }\ntype Out struct{ V int }\n\n// goverter:converter\n// goverter:output:file @cwd/out/" + pk + ".go\n// goverter:output:package vcase/" + name + "/out\ntype Converter interface {\n\tConvert(source In) Out\n}\n"
	}
	c := pgen.RawCase(name, files, nil, []string{"./alpha", "./beta"})
	c.Feature("tag", "same-name")
	return c
}

// pinnedBlankFields: blank fields cannot be read or assigned, also not when the output lands in the package of the types.
func pinnedBlankFields(name string) *pgen.Case {
	src := "package p\n\ntype In struct{ _ int; V int; _ string; N struct{ _ bool; X int } }\ntype Out struct{ _ int; V int; _ string; N struct{ _ bool; X int } }\n\n// goverter:variables\nvar (\n\tConvert func(source In) Out\n\tConvertList func(source []In) []Out\n)\n"
	c := pgen.RawCase(name, map[string]string{"p/input.go": src}, nil, []string{"./p"})
	c.Feature("tag", "blank-fields")
	return c
}

// pinnedChanTypes: channel types that goverter has to spell out (directions, a channel of receive-only channels needs
// parentheses, channels inside func and map types).
func pinnedChanTypes(name string) *pgen.Case {
	src := "package p\n\ntype In struct {\n\tA []<-chan int\n\tB []chan<- string\n\tC []chan (<-chan int)\n\tD []chan<- chan int\n\tE []<-chan <-chan bool\n\tF map[string]func(<-chan int) chan<- string\n\tG [](<-chan []chan int)\n}\ntype Out struct {\n\tA []*<-chan int\n\tB []*chan<- string\n\tC []*chan (<-chan int)\n\tD []*chan<- chan int\n\tE []*<-chan <-chan bool\n\tF map[string]*func(<-chan int) chan<- string\n\tG []*<-chan []chan int\n}\n\n// goverter:converter\n// goverter:skipCopySameType\ntype Converter interface {\n\tConvert(source In) Out\n\tList(source []chan (<-chan int)) []*chan (<-chan int)\n}\n"
	c := pgen.RawCase(name, map[string]string{"p/input.go": src}, nil, []string{"./p"})
	c.Feature("tag", "chan-types")
	return c
}

// pinnedFuncTypes: function types that goverter has to spell out (make, temporaries): the rendered type must be
// identical to the user's (only the LAST parameter of a variadic function is variadic, results, named parameters).
func pinnedFuncTypes(name string) *pgen.Case {
	src := "package p\n\ntype F1 = func(args []string, env ...string) error\ntype In struct{ M map[string]F1; P *func(a []int, b []string, c ...[]int) (int, error); L []func(...string) }\ntype Out struct{ M map[string]*F1; P func(a []int, b []string, c ...[]int) (int, error); L []*func(...string) }\n\n// goverter:converter\n// goverter:skipCopySameType\n// goverter:useZeroValueOnPointerInconsistency\ntype Converter interface {\n\tConvert(source In) Out\n\tMaps(source map[string]func(args []string, env ...string) error) map[string]*func(args []string, env ...string) error\n}\n"
	c := pgen.RawCase(name, map[string]string{"p/input.go": src}, nil, []string{"./p"})
	c.Feature("tag", "func-types")
	return c
}

// pinnedSameName: converters that land in one output package and would declare the same identifier (two
// ConverterImpl structs from two packages / two functions Convert): a diagnostic or output that compiles.
func pinnedSameName(name string, fn bool) *pgen.Case {
	files := map[string]string{}
	for _, pk := range []string{"alpha", "beta"} {
		files[pk+"/input.go"] = "package " + pk + "\n\ntype In struct{ V int }\ntype Out struct{ V int }\n\n// goverter:converter\ntype Converter interface {\n\tConvert(source In) Out\n}\n"
	}
	args := []string{"-g", "output:file @cwd/out/gen.go", "-g", "output:package vcase/" + name + "/out"}
	if fn {
		args = append(args, "-g", "output:format function")
	}
	c := pgen.RawCase(name, files, args, []string{"./alpha", "./beta"})
	c.Feature("tag", "same-name")
	return c
}

// pinnedHelperNameClash: a declared method / variable has the very name goverter would give to a generated helper.
func pinnedHelperNameClash(name, lines string, vars bool) *pgen.Case {
	types := "type In struct{ A Inner }\ntype Out struct{ A Inner2 }\ntype Inner struct{ V int }\ntype Inner2 struct{ V int }\ntype Inner3 struct{ V int }\ntype Inner4 struct{ W int }\n"
	src := "package p\n\n// goverter:converter\n" + lines + "type Conv interface {\n\tConvert(source In) Out\n\t// goverter:map V W\n\tpInnerToPInner2(source Inner3) Inner4\n}\n\n" + types
	if vars {
		src = "package p\n\n// goverter:variables\nvar (\n\tConvert func(source In) Out\n\t// goverter:map V W\n\tpInnerToPInner2 func(source Inner3) Inner4\n)\n\n" + types
	}
	c := pgen.RawCase(name, map[string]string{"p/input.go": src}, nil, []string{"./p"})
	c.Feature("tag", "helper-name-clash")
	return c
}

// pinnedHelperVsLaterConverter: the helper that an EARLIER converter (by name) needs is called like the function / variable
// that a LATER converter of the same output package declares (repaired defect, see known-findings.txt).
func pinnedHelperVsLaterConverter(name, laterFormat string) *pgen.Case {
	types := "type Outer struct{ I Inner }\ntype Inner struct{ A int }\ntype OuterOut struct{ I InnerOut }\ntype InnerOut struct{ A int }\n"
	a := "// goverter:converter\n// goverter:output:format function\n// goverter:output:file ./conv_gen.go\n// goverter:output:package vcase/" + name + "/p\ntype A interface {\n\tConvertOuter(source Outer) OuterOut\n}\n\n"
	b := "// goverter:converter\n// goverter:output:format function\n// goverter:output:file ./conv_gen.go\n// goverter:output:package vcase/" + name + "/p\ntype B interface {\n\tpInnerToPInnerOut(source Inner) InnerOut\n}\n\n"
	if laterFormat == "variables" {
		b = "// goverter:variables\nvar (\n\tpInnerToPInnerOut func(source Inner) InnerOut\n)\n\n"
		a = strings.Replace(a, "./conv_gen.go", "./input.gen.go", 1)
	}
	c := pgen.RawCase(name, map[string]string{"p/input.go": "package p\n\n" + a + b + types}, nil, []string{"./p"})
	c.Feature("tag", "helper-name-clash,two-converters")
	return c
}

// pinnedUnderlyingLiteral: useUnderlyingTypeMethods for named types whose underlying type is a pointer or a receive-only
// channel: the conversion of the source needs parentheses, (*int)(source) (repaired defect, see known-findings.txt).
func pinnedUnderlyingLiteral(name string) *pgen.Case {
	src := "package p\n\n// goverter:converter\n// goverter:extend FromPtr\n// goverter:extend FromChan\n// goverter:useUnderlyingTypeMethods\ntype Converter interface {\n\tConvert(source Input) Output\n}\n\n" +
		"type IntP *int\ntype Ch <-chan int\ntype Input struct {\n\tV IntP\n\tC Ch\n}\ntype Output struct {\n\tV string\n\tC int\n}\n\nfunc FromPtr(p *int) string { return \"\" }\nfunc FromChan(c <-chan int) int { return 0 }\n"
	c := pgen.RawCase(name, map[string]string{"p/input.go": src}, nil, []string{"./p"})
	c.Feature("tag", "underlying-literal")
	return c
}

// pinnedNumberedTemporaries: so many temporaries of one base name (pInt, pInt2, .. pInt17) that the numbered names reach the
// names of temporaries with another base that ends in digits (pInt8, pInt16 for *int8 / *int16): every allocated name is unique.
func pinnedNumberedTemporaries(name string, sizedFirst bool) *pgen.Case {
	var sf, tf []string
	sized := func() {
		sf = append(sf, "P8 int8", "P16 int16", "U8 uint8")
		tf = append(tf, "P8 *int8", "P16 *int16", "U8 *uint8")
	}
	if sizedFirst {
		sized()
	}
	for i := 0; i < 18; i++ {
		sf = append(sf, fmt.Sprintf("A%d int", i), fmt.Sprintf("B%d uint", i))
		tf = append(tf, fmt.Sprintf("A%d *int", i), fmt.Sprintf("B%d *uint", i))
	}
	if !sizedFirst {
		sized()
	}
	src := "package p\n\ntype In struct {\n\t" + strings.Join(sf, "\n\t") + "\n}\ntype Out struct {\n\t" + strings.Join(tf, "\n\t") + "\n}\n\n// goverter:converter\ntype Converter interface {\n\tConvert(source In) Out\n}\n"
	c := pgen.RawCase(name, map[string]string{"p/input.go": src}, nil, []string{"./p"})
	c.Feature("tag", "numbered-temporaries")
	return c
}

// pinnedVarsElsewhere: a variables block whose output file lives in ANOTHER package and whose conversions need generated
// helpers: the helpers are emitted into the output package and must be called unqualified from the init() there.
func pinnedVarsElsewhere(name, file, pkg string) *pgen.Case {
	src := "package p\n\ntype In struct{ V int; N Nest; L []Nest; M map[string]*Nest }\ntype Nest struct{ X int }\ntype Out struct{ V int; N NestOut; L []NestOut; M map[string]*NestOut }\ntype NestOut struct{ X int }\n\n" +
		"// goverter:variables\n// goverter:output:file " + file + "\n// goverter:output:package " + pkg + "\nvar (\n\tConvert func(source In) Out\n\tConvertList func(source []In) []Out\n)\n"
	c := pgen.RawCase(name, map[string]string{"p/input.go": src}, nil, []string{"./p"})
	c.Feature("tag", "vars-elsewhere")
	return c
}

// C18: emitted code is reflection-free, stateless and imports only what it needs.
func C18(e *core.Env) int {
	rep := core.NewReport(e, "exploration")
	rep.Rule = "AST monitor over every file emitted for the C01 corpus: imports never include reflect/unsafe; imports are a subset of {packages owning a type of the case, packages of configured custom functions, fmt only when wrapErrors or an enum @error/@panic action is configured, the wrapErrorsUsing package}; top-level declarations are only the empty converter struct, funcs/methods and init (no var/const/other types); compilation (C01) shows every import is used; non-trivial = file with >=1 declaration; distinct = fingerprint of the case"
	rep.Assumptions = []string{"go/parser", "the set of packages a case may import is known from the generator's IR"}
	rep.Floor = tierN(e, 30, 300)
	cases := c01Corpus(e)
	cases = append(cases, otherCorpora(e, tierN(e, 25, 300))...)
	cases = append(cases, pinnedNonComparable("pin_update_noncomparable"))
	cases = append(cases, c18Probes()...)
	p, err := runPipelineOpts(e, "c18", cases, pipeOpts{Execute: false})
	if err != nil {
		rep.Inconclusive = append(rep.Inconclusive, err.Error())
		return rep.Finish()
	}
	for _, cr := range p.Mod.Cases {
		rep.Evaluations++
		c := cr.Case
		if !cr.Generated {
			rep.Count("not_generated", 1)
			continue
		}
		allowed := map[string]bool{}
		for _, pk := range c.Pkgs {
			allowed[c.Root+"/"+pk.Path] = true
		}
		for _, a := range c.AllowImports {
			allowed[a] = true
		}
		tags := caseTags(c)
		facts := emittedFacts(cr)
		for _, f := range facts {
			rep.Count("files_checked", 1)
			if f.ParseErr != "" {
				continue
			}
			for imp := range f.Imports {
				rep.Set("imports_seen", importClass(imp))
				if imp == "reflect" || imp == "unsafe" {
					rep.Violation(&core.Viol{Kind: "import", Case: c.Name, Summary: "emitted file imports " + imp, Detail: f.Path, Dir: cr.Dir, Tags: tags})
				} else if !allowed[imp] {
					rep.Violation(&core.Viol{Kind: "import", Case: c.Name, Summary: "emitted file imports unneeded package " + importClass(imp), Detail: f.Path + " imports " + imp, Dir: cr.Dir, Tags: tags})
				}
			}
			if len(f.Vars) > 0 || len(f.Consts) > 0 {
				rep.Violation(&core.Viol{Kind: "state", Case: c.Name, Summary: fmt.Sprintf("emitted file declares package-level var/const %v %v", f.Vars, f.Consts), Detail: f.Path, Dir: cr.Dir, Tags: tags})
			}
			impls := map[string]bool{}
			for _, cv := range c.Convs {
				if cv.Format == "struct" {
					impls[cv.ImplName] = true
				}
			}
			for tn, k := range f.Types {
				if len(c.Convs) == 0 && k == "struct{}" && strings.HasSuffix(tn, "Impl") {
					continue // literal-text case: the converter struct is <Interface>Impl
				}
				if !impls[tn] || k != "struct{}" {
					rep.Violation(&core.Viol{Kind: "state", Case: c.Name, Summary: fmt.Sprintf("emitted file declares type %s (%s) besides the converter struct", tn, k), Detail: f.Path, Dir: cr.Dir, Tags: tags})
				}
			}
		}
		if len(facts) > 0 {
			rep.NonTrivial(c.Fingerprint())
			rep.Set("features_seen", featureString(c))
			if len(rep.Samples) < 3 {
				rep.Sample(map[string]any{"case": c.Name, "file": facts[0].Path, "imports": facts[0].Imports, "types": facts[0].Types, "funcs": len(facts[0].Funcs), "vars": facts[0].Vars})
			}
		}
	}
	return rep.Finish()
}

func importClass(imp string) string {
	if strings.HasPrefix(imp, "vcase/") {
		parts := strings.Split(imp, "/")
		if len(parts) > 2 {
			return "vcase/<case>/" + strings.Join(parts[2:], "/")
		}
	}
	return imp
}

// pinnedNonComparable reproduces F-C01-noncomparable-zero: update:ignoreZeroValueField:struct on a struct field
// that contains a slice emits `source.S != (T{})`, which does not compile.
func pinnedNonComparable(name string) *pgen.Case {
	c := pgen.RawCase(name, map[string]string{"p/input.go": "package p\n\ntype Inner struct{ L []int; V int }\ntype In struct{ S Inner; N int }\ntype Out struct{ S Inner; N int }\n\n// goverter:converter\n// goverter:output:file ./zz_generated.go\ntype Converter interface {\n\t// goverter:update target\n\t// goverter:update:ignoreZeroValueField:struct\n\tUpdate(source In, target *Out)\n}\n"}, nil, []string{"./p"})
	c.Feature("tag", "noncomparable-zero,pinned")
	return c
}

// c18Probes: settings that would need fmt are configured but not in effect for any method: fmt must not be imported.
func c18Probes() []*pgen.Case {
	mk := func(name, body string, args ...string) *pgen.Case {
		c := pgen.RawCase("probe_"+name, map[string]string{"p/input.go": "package p\n\nfunc SE(s string) (string, error) { return s, nil }\ntype In struct{ S string }\ntype Out struct{ S string }\ntype KA int\nconst A1 KA = 1\ntype KB int\nconst B1 KB = 1\n\n" + body}, args, []string{"./p"})
		c.Feature("probe", name)
		return c
	}
	allow := func(c *pgen.Case, imps ...string) *pgen.Case {
		c.AllowImports = append(c.AllowImports, imps...)
		return c
	}
	return []*pgen.Case{
		// enum @error together with wrapErrorsUsing: fmt for the action, the wrapping package, nothing else
		allow(mk("enum_error_using", "type HA struct{ K KA; L []KA }\ntype HB struct{ K KB; L []KB }\n\n// goverter:converter\n// goverter:enum:unknown @error\n// goverter:wrapErrorsUsing vcase/errs\ntype Converter interface {\n\t// goverter:enum:map A1 B1\n\tA(source KA) (KB, error)\n\tH(source HA) (HB, error)\n}\n"), "fmt", "vcase/errs"),
		allow(mk("enum_panic_using", "type HA struct{ K KA }\ntype HB struct{ K KB }\n\n// goverter:converter\n// goverter:enum:unknown @panic\n// goverter:wrapErrorsUsing vcase/errs\n// goverter:extend SE\ntype Converter interface {\n\t// goverter:enum:map A1 B1\n\tA(source KA) KB\n\tH(source HA) HB\n\tS(source In) (Out, error)\n}\n"), "fmt", "vcase/errs"),
		allow(mk("enum_error_wraperrors", "type HA struct{ K KA }\ntype HB struct{ K KB }\n\n// goverter:converter\n// goverter:enum:unknown @error\n// goverter:wrapErrors\ntype Converter interface {\n\t// goverter:enum:map A1 B1\n\tA(source KA) (KB, error)\n\tH(source HA) (HB, error)\n}\n"), "fmt"),
		// wrapErrors on the converter, every method opts out
		mk("wraperrors_all_optout", "// goverter:converter\n// goverter:extend SE\n// goverter:wrapErrors\ntype Converter interface {\n\t// goverter:wrapErrors no\n\tA(source In) (Out, error)\n\t// goverter:wrapErrors no\n\tB(source []In) ([]Out, error)\n}\n"),
		// wrapErrors globally but nothing can fail
		mk("wraperrors_nothing_fails", "// goverter:converter\ntype Converter interface {\n\tA(source In) Out\n}\n", "-g", "wrapErrors"),
		// enum:unknown @error configured but no enum is converted
		mk("enum_error_no_enum", "// goverter:converter\n// goverter:enum:unknown @error\ntype Converter interface {\n\tA(source In) Out\n}\n"),
		// enum pair with @ignore: no fmt
		mk("enum_ignore", "// goverter:converter\n// goverter:enum:unknown @ignore\ntype Converter interface {\n\t// goverter:enum:map A1 B1\n\tA(source KA) KB\n}\n"),
		// enum with key
		mk("enum_key", "// goverter:converter\n// goverter:enum:unknown B1\ntype Converter interface {\n\t// goverter:enum:map A1 B1\n\tA(source KA) KB\n}\n"),
		// enums at every container position (map key included) with actions that need no import
		mk("enum_positions_ignore", "type HA struct{ K map[KA]string; V map[string]KA; B map[KA]KA; L []KA; P *KA; A [2]KA; N map[KA][]KA }\ntype HB struct{ K map[KB]string; V map[string]KB; B map[KB]KB; L []KB; P *KB; A []KB; N map[KB][]KB }\n\n// goverter:converter\n// goverter:enum:unknown @ignore\ntype Converter interface {\n\t// goverter:enum:map A1 B1\n\tA(source KA) KB\n\tH(source HA) HB\n\tM(source map[KA]int) map[KB]int\n}\n"),
		mk("enum_positions_key", "type HA struct{ K map[KA]string; B map[KA]KA; N map[KA]map[KA]bool }\ntype HB struct{ K map[KB]string; B map[KB]KB; N map[KB]map[KB]bool }\n\n// goverter:converter\n// goverter:enum:unknown B1\ntype Converter interface {\n\t// goverter:enum:map A1 B1\n\tA(source KA) KB\n\tH(source HA) HB\n\t// goverter:update target\n\tU(source HA, target *HB)\n}\n"),
		// update methods in every signature variant (pointer / value source, with / without error): no import of their own
		mk("update_signatures", "// goverter:converter\n// goverter:extend SE\ntype Converter interface {\n\t// goverter:update target\n\tA(source *In, target *Out) error\n\t// goverter:update target\n\tB(source In, target *Out) error\n}\n\n// goverter:converter\ntype Plain interface {\n\t// goverter:update target\n\tC(source *In, target *Out)\n\t// goverter:update target\n\t// goverter:update:ignoreZeroValueField\n\tD(target *Out, source *In)\n}\n"),
		// unsafe.Pointer inside the user's struct: a plain assignment needs no import of unsafe
		mkUnsafe(),
		// fallible extend without any wrapping
		mk("extend_error_plain", "// goverter:converter\n// goverter:extend SE\ntype Converter interface {\n\tA(source In) (Out, error)\n}\n"),
	}
}

func mkUnsafe() *pgen.Case {
	c := pgen.RawCase("probe_unsafe_field", map[string]string{"p/input.go": "package p\n\nimport \"unsafe\"\n\ntype In struct{ P unsafe.Pointer; N int }\ntype Out struct{ P unsafe.Pointer; N int }\n\n// goverter:converter\ntype Converter interface {\n\t// goverter:update target\n\t// goverter:update:ignoreZeroValueField:basic\n\tUpdate(source In, target *Out)\n\tConvert(source In) Out\n}\n"}, nil, []string{"./p"})
	c.Feature("probe", "unsafe_field")
	return c
}

// pinnedGlobalFile: a CLI-level output:file applies to converters of several packages; the packages already at those
// locations have names that differ from their directory name and must be adopted by every emitted file.
func pinnedGlobalFile(name string) *pgen.Case {
	files := map[string]string{}
	for _, pk := range []string{"alpha", "beta", "gamma"} {
		files[pk+"/input.go"] = "package " + pk + "\n\ntype In struct{ V int }\ntype Out struct{ V int }\n\n// goverter:converter\ntype Converter interface {\n\tConvert(source In) Out\n}\n"
		files[pk+"/out/existing.go"] = "package " + pk + "conv\n\ntype Existing struct{}\n"
	}
	c := pgen.RawCase(name, files, []string{"-g", "output:file ./out/gen.go"}, []string{"./alpha", "./beta", "./gamma"})
	c.Feature("tag", "pinned")
	return c
}

package checks

import (
	"fmt"
	"math/rand"
	"strings"

	"verif/internal/core"
	"verif/internal/pgen"
)

func init() { Registry["C11"] = C11 }

// C11: pointer mismatches and default constructors follow the documented semantics.
func C11(e *core.Env) int {
	rep := core.NewReport(e, "exploration")
	rep.Rule = "(1) pointer matrix: ptr^a(X) -> ptr^b(X') for a,b in 0..2 over an int and a named-struct pointee at top-level, field, slice-element and map-value positions, with useZeroValueOnPointerInconsistency absent or written at CLI, converter or method level: generation must succeed iff a<=b or the flag is in effect, a rejection must carry the pointer-specific diagnostic, and executed results must equal the reference (T->*U non-nil pointer to the conversion, *T->U zero value for nil else conversion of the pointee); (2) default constructors: methods S->T, S->*T, *S->*T, *S->T with `default FUNC` where FUNC takes/omits the source, a context and an error result and returns T or *T, combined with default:update and update:ignoreZeroValueField(:basic) at the three levels; executed on full / zero / partly zero / nil sources: nil source pointer => FUNC's value unchanged, ignored fields => FUNC's values (or zero when a non-nil source replaces the result without default:update), mapped fields => conversion of the source field, zero source fields of a selected category under update semantics => FUNC's value; non-trivial = executed case whose values were judged or rejection that was compared; distinct = (shape, function signature, settings)"
	rep.Assumptions = []string{"constructor table written from docs/reference/default.md and its examples", "zero-valued source fields of unselected categories and nil containers under overlay are not judged", "method-level flag below a generated sub-method (named struct pointee) is not judged"}
	rep.Floor = tierN(e, 30, 300)
	n := tierN(e, 270, 4000)
	nv := tierN(e, 40, 100)
	r := rand.New(rand.NewSource(e.Seed*86028121 + 11))
	var cases []*pgen.Case
	expectOK := map[string]bool{}
	for i := 0; i < n; i++ {
		cr := rand.New(rand.NewSource(r.Int63()))
		name := fmt.Sprintf("q%05d", i)
		if i%2 == 0 {
			dc := pgen.DefaultCase(cr, name, pgen.DefaultOpts{Format: formats[(i/2)%3], Seed: e.Seed*223 + int64(i), NValues: nv})
			expectOK[name] = dc.Features["mustfail"] == ""
			if !expectOK[name] {
				for _, cv := range dc.Convs {
					cv.Spec = nil
				}
				dc.Feature("ptr", "1->0")
				dc.Feature("pos", "top+default")
				dc.Feature("level", "none")
				dc.Feature("leaf", "struct")
			}
			cases = append(cases, dc)
		} else {
			c, ok := pgen.PointerCase(cr, name, pgen.DefaultOpts{Format: formats[(i/2)%3], Seed: e.Seed*223 + int64(i), NValues: nv})
			expectOK[name] = ok
			if !ok {
				for _, cv := range c.Convs {
					cv.Spec = nil
				}
			}
			cases = append(cases, c)
		}
	}
	// default FUNC with a value-returning FUNC on methods whose target is a pointer to a slice / map (not a struct)
	for i := 0; i < tierN(e, 9, 60); i++ {
		cr := rand.New(rand.NewSource(r.Int63()))
		name := fmt.Sprintf("qc%04d", i)
		dc := pgen.DefaultCase(cr, name, pgen.DefaultOpts{Format: formats[i%3], Seed: e.Seed*229 + int64(i), NValues: nv, PtrContainer: true})
		expectOK[name] = true
		cases = append(cases, dc)
	}
	// update methods that carry a default they never apply, with their own target type recurring at an inline
	// T -> *U position (the update monitor judges them)
	for i := 0; i < tierN(e, 12, 120); i++ {
		cr := rand.New(rand.NewSource(r.Int63()))
		name := fmt.Sprintf("qu%04d", i)
		uc := pgen.UpdateCase(cr, name, pgen.UpdateOpts{Format: formats[i%3], Seed: e.Seed*227 + int64(i), NValues: nv / 2, UnusedDefault: true})
		uc.Feature("shape", "unuseddefault")
		expectOK[name] = true
		cases = append(cases, uc)
	}
	{
		pc := pgen.PinnedMapValueAddr("pin_mapvalue_addr")
		expectOK[pc.Name] = true
		cases = append(cases, pc)
	}
	p, err := runPipelineOpts(e, "c11", cases, pipeOpts{Execute: true})
	if err != nil {
		rep.Inconclusive = append(rep.Inconclusive, err.Error())
		return rep.Finish()
	}
	var pos []*core.CaseRun
	for _, cr := range p.Mod.Cases {
		c := cr.Case
		if c.Features["nojudge"] == "true" {
			rep.Count("not_judged_submethod_boundary", 1)
			if cr.Generated {
				pos = append(pos, cr)
			}
			continue
		}
		if !expectOK[c.Name] {
			rep.Evaluations++
			if cr.Gen.Exit != 1 {
				rep.Violation(&core.Viol{Kind: "pointer_mismatch_accepted", Case: c.Name, Summary: fmt.Sprintf("*T -> T without useZeroValueOnPointerInconsistency in effect was generated (ptr %s at %s, flag level %s, leaf %s)", c.Features["ptr"], c.Features["pos"], c.Features["level"], c.Features["leaf"]), Detail: featureString(c) + "\n" + cr.Gen.Stderr, Dir: cr.Dir, Tags: caseTags(c)})
			} else if !strings.Contains(cr.Gen.Stderr, "useZeroValueOnPointerInconsistency") {
				rep.Violation(&core.Viol{Kind: "pointer_diagnostic", Case: c.Name, Summary: "pointer mismatch rejected without the pointer-specific diagnostic: " + core.Classify(cr.Gen.Stderr), Detail: featureString(c) + "\n" + cr.Gen.Stderr, Dir: cr.Dir, Tags: caseTags(c)})
			} else {
				rep.NonTrivial("reject|" + c.Features["ptr"] + "|" + c.Features["pos"] + "|" + c.Features["level"] + "|" + c.Features["leaf"])
			}
			continue
		}
		pos = append(pos, cr)
	}
	p.Mod.Cases = pos
	kinds := map[string]bool{"panic": true, "value": true, "unexpected_error": true, "fatal": true, "source_modified": true,
		"default_nil_result": true, "default_nil_source": true, "default_ignored_field": true, "default_replace": true, "default_update_zero": true, "default_value": true,
		"update_overwrote": true, "update_value": true, "update_nil_source": true, "update_results": true}
	foldRuntime(rep, p, kinds, func(cr *core.CaseRun) bool {
		for _, me := range cr.Methods {
			if me.Judged > 0 {
				return true
			}
		}
		return false
	})
	for _, cr := range pos {
		c := cr.Case
		if !cr.Generated && c.Features["nojudge"] != "true" {
			rep.Violation(&core.Viol{Kind: "valid_program_rejected", Case: c.Name, Summary: "documented pointer/default shape was rejected: " + core.Classify(cr.Gen.Stderr) + " (" + featureString(c) + ")", Detail: cr.Gen.Stderr, Dir: cr.Dir, Tags: caseTags(c)})
		} else if cr.Generated && !cr.Built {
			rep.Violation(&core.Viol{Kind: "compile", Case: c.Name, Summary: "emitted code does not compile: " + compileClass(cr.BuildErr) + " (" + featureString(c) + ")", Detail: cr.BuildErr, Dir: cr.Dir, Tags: caseTags(c)})
		}
		if s := c.Features["shape"]; s != "" {
			rep.Set("default_shapes_seen", s+",update="+c.Features["defaultupdate"])
		}
		if s := c.Features["ptr"]; s != "" {
			rep.Set("pointer_cells_seen", s+"@"+c.Features["pos"]+"/"+c.Features["level"])
		}
	}
	return rep.Finish()
}

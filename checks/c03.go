package checks

import (
	"bufio"
	"bytes"
	"encoding/json"
	"fmt"
	"math/rand"
	"os"
	"path/filepath"
	"sort"
	"strings"
	"sync"
	"time"

	"verif/internal/core"
	"verif/internal/judge"
	"verif/internal/pgen"
)

func init() { Registry["C03"] = C03 }

type inprocVariant struct {
	Name  string   `json:"name"`
	Lines []string `json:"lines"`
}

type inprocOut struct {
	Variant   string            `json:"variant"`
	Converter string            `json:"converter"`
	OK        bool              `json:"ok"`
	Err       string            `json:"err"`
	Panic     string            `json:"panic"`
	Stage     string            `json:"stage"`
	NFiles    int               `json:"nfiles"`
	Files     map[string]string `json:"files"`
}

// runInproc executes the in-process helper on one job.
func runInproc(e *core.Env, helper string, job map[string]any, timeout time.Duration) ([]inprocOut, core.CLIResult) {
	b, _ := json.Marshal(job)
	res := core.RunCmd(helper, nil, core.RunOpts{Dir: job["dir"].(string), Env: e.GoEnv(), Timeout: timeout, Stdin: string(b)})
	var outs []inprocOut
	sc := bufio.NewScanner(bytes.NewReader([]byte(res.Stdout)))
	sc.Buffer(make([]byte, 1<<20), 1<<26)
	for sc.Scan() {
		var o inprocOut
		if json.Unmarshal(sc.Bytes(), &o) == nil {
			outs = append(outs, o)
		}
	}
	return outs, res
}

type c03Variant struct {
	name  string
	lines []string
	cfg   judge.Cfg
	// outInTy: the code is emitted into the package that declares the universe's types (its unexported fields are
	// accessible there); the lines are completed per universe
	outInTy bool
}

func c03Variants(e *core.Env) []c03Variant {
	all := []c03Variant{
		{"none", nil, judge.Cfg{}, false},
		{"unknown", []string{"enum:unknown @ignore"}, judge.Cfg{EnumUnknown: "@ignore"}, false},
		{"skipCopy", []string{"skipCopySameType", "enum:unknown @ignore"}, judge.Cfg{SkipCopy: true, EnumUnknown: "@ignore"}, false},
		{"useZero", []string{"useZeroValueOnPointerInconsistency", "enum:unknown @ignore"}, judge.Cfg{UseZero: true, EnumUnknown: "@ignore"}, false},
		{"ignoreMissing", []string{"ignoreMissing"}, judge.Cfg{IgnoreMissing: true}, false},
		{"ignoreUnexported", []string{"ignoreUnexported yes"}, judge.Cfg{IgnoreUnexported: true}, false},
		{"matchIgnoreCase", []string{"matchIgnoreCase"}, judge.Cfg{MatchIgnoreCase: true}, false},
		{"enumNo", []string{"enum no"}, judge.Cfg{EnumOff: true}, false},
		{"all", []string{"skipCopySameType", "useZeroValueOnPointerInconsistency", "ignoreMissing", "ignoreUnexported", "matchIgnoreCase", "enum:unknown Red"},
			judge.Cfg{SkipCopy: true, UseZero: true, IgnoreMissing: true, IgnoreUnexported: true, MatchIgnoreCase: true, EnumUnknown: "Red"}, false},
	}
	// after the others, in the same process and over the same loaded packages: whether a field is accessible is a
	// question about (field, output package), not about the field alone
	outTy := c03Variant{name: "outInTy", outInTy: true}
	if e.Tier == "thorough" {
		return append(all, outTy)
	}
	// quick: the unconfigured variant plus one seed-selected other
	k := 1 + int(e.Seed)%(len(all)-1)
	return []c03Variant{all[0], all[k], all[len(all)-1], outTy}
}

type c03Disagree struct {
	pair, variant, label string
	got                  inprocOut
	want                 judge.Result
	i, j                 int
}

// C03: generation succeeds iff a documented rule covers every position.
func C03(e *core.Env) int {
	rep := core.NewReport(e, "exploration")
	rep.Rule = "universe D1 = 32 leaf types (basics, named basics, named complex / bool types with constants, enums with equal/different member names in two packages, same-shape/extra-field/kind-mismatch/unexported-field structs, any, named interface, func, chan) closed under one constructor application {*, [], [2], map[string]., map[.]string, struct{F .}, named}; ALL ordered pairs are generated in-process (comments.ParseDocs, config.Parse, generator.Generate: one converter per pair) under the settings variants (one of them emits into the types' own package) and compared with the independent convertibility judgement J (internal/judge/j.go); thorough adds D2 (6 leaves, two applications) and random deep struct pairs; a sample of pairs is re-run through the real CLI and must agree with the in-process outcome; six fixed programs with two converters emitted into different packages over structs with unexported fields (each judged against its own output package); non-trivial = J descended at least one level into the pair; distinct = (pair, variant)"
	rep.Assumptions = []string{"J encodes docs/explanation/generation.md and the property text", "settings are given at CLI level so that generated sub-methods see the same values", "in-process API equals the CLI (validated on a sample every run)"}
	rep.Floor = tierN(e, 1000, 20000)
	helper, err := e.BuildHelper("inproc")
	if err != nil {
		rep.Inconclusive = append(rep.Inconclusive, err.Error())
		return rep.Finish()
	}
	variants := c03Variants(e)
	type uni struct {
		name string
		u    *pgen.Universe
		vars []c03Variant
	}
	unis := []uni{{"D1", pgen.BuildUniverse("vcase/d1", 1, false, 16), variants}}
	if e.Tier == "thorough" {
		unis = append(unis, uni{"D2", pgen.BuildUniverse("vcase/d2", 2, true, 16), []c03Variant{variants[0], variants[2], variants[3]}})
	}
	var disagreements []c03Disagree
	var mu sync.Mutex
	cliSamples := []c03Disagree{}
	for _, un := range unis {
		root := filepath.Join(e.Scratch, "uni-"+un.name)
		dir := filepath.Join(root, strings.TrimPrefix(un.u.Root, "vcase/"))
		os.MkdirAll(dir, 0o755)
		os.WriteFile(filepath.Join(root, "go.mod"), []byte("module vcase\n\ngo 1.22\n"), 0o644)
		for p, b := range un.u.Files(nil) {
			fp := filepath.Join(dir, p)
			os.MkdirAll(filepath.Dir(fp), 0o755)
			os.WriteFile(fp, []byte(b), 0o644)
		}
		var vs []inprocVariant
		for _, v := range un.vars {
			lines := v.lines
			if v.outInTy {
				lines = []string{"output:file @cwd/ty/zz_generated.go", "output:package " + un.u.Root + "/ty"}
			}
			vs = append(vs, inprocVariant{v.name, lines})
		}
		n := len(un.u.Types)
		results := make([]map[string]inprocOut, len(un.u.Shards)) // shard -> "variant|conv" -> out
		core.Parallel(len(un.u.Shards), func(sh int) {
			outs, res := runInproc(e, helper, map[string]any{"dir": dir, "patterns": []string{"./" + un.u.Shards[sh].Path}, "buildTags": "goverter", "constraint": "!goverter", "variants": vs, "mode": "bulk"}, 20*time.Minute)
			m := map[string]inprocOut{}
			for _, o := range outs {
				m[o.Variant+"|"+o.Converter] = o
			}
			results[sh] = m
			if res.Exit != 0 || res.TimedOut {
				mu.Lock()
				rep.Inconclusive = append(rep.Inconclusive, fmt.Sprintf("in-process helper failed on shard %d of %s: exit=%d %s", sh, un.name, res.Exit, core.Classify(res.Stderr)+": "+firstLine(res.Stderr)))
				mu.Unlock()
			}
		})
		rep.Extra["universe_"+un.name+"_types"] = n
		rep.Extra["universe_"+un.name+"_pairs"] = n * n
		for _, v := range un.vars {
			for i := 0; i < n; i++ {
				for j := 0; j < n; j++ {
					sh := un.u.Shard(i, j)
					out, ok := results[sh][v.name+"|"+pgen.PairName(i, j)]
					if !ok {
						rep.Count("missing_outcomes", 1)
						continue
					}
					rep.Evaluations++
					cfg := v.cfg
					cfg.OutPkg = un.u.Out[sh]
					if v.outInTy {
						cfg.OutPkg = un.u.Ty
					}
					cfg.SigPkg = un.u.Shards[sh]
					want := judge.Convertible(un.u.Types[i], un.u.Types[j], cfg)
					label := un.u.Labels[i] + " -> " + un.u.Labels[j]
					if want.Depth >= 1 {
						rep.NonTrivial(un.name + "|" + v.name + "|" + label)
					}
					if want.OK {
						rep.Count("judged_convertible", 1)
					} else {
						rep.Count("judged_not_convertible", 1)
					}
					rep.Set("variants", v.name)
					d := c03Disagree{pair: pgen.PairName(i, j), variant: v.name, label: un.name + ": " + label, got: out, want: want, i: i, j: j}
					switch {
					case out.Panic != "":
						disagreements = append(disagreements, d)
					case out.OK != want.OK:
						disagreements = append(disagreements, d)
					case !out.OK:
						cl := core.Classify(out.Err)
						rep.Set("error_classes_seen", cl)
						if !classCompatible(cl, want.Classes) {
							rep.Set("error_class_differs", cl+" vs "+classList(want.Classes))
						}
						if out.NFiles != 0 {
							disagreements = append(disagreements, d)
						}
					}
					if un.name == "D1" && v.name == un.vars[0].name && len(cliSamples) < 4000 {
						cliSamples = append(cliSamples, d)
					}
				}
			}
		}
		if len(rep.Samples) < 3 {
			rep.Sample(map[string]any{"universe": un.name, "types": n, "example_pair": un.u.Labels[3] + " -> " + un.u.Labels[n-1], "variants": len(un.vars)})
		}
	}
	// report disagreements
	for _, d := range disagreements {
		kind := "accepts_unconvertible"
		sum := ""
		switch {
		case d.got.Panic != "":
			kind = "panic"
			sum = "goverter panicked: " + firstLine(d.got.Panic)
		case d.got.OK && !d.want.OK:
			sum = fmt.Sprintf("goverter generated code although no documented rule covers the pair (%s)", classList(d.want.Classes))
		case !d.got.OK && d.want.OK:
			kind = "rejects_convertible"
			sum = "goverter rejected a pair every position of which is covered by a documented rule: " + core.Classify(d.got.Err)
		default:
			kind = "emits_on_failure"
			sum = "failure returned together with rendered files"
		}
		tags := []string{"variant:" + d.variant}
		for c := range d.want.Classes {
			tags = append(tags, "class:"+c)
		}
		sort.Strings(tags)
		rep.Violation(&core.Viol{Kind: kind, Case: d.label, Summary: sum + " [" + classList(d.want.Classes) + "]", Detail: fmt.Sprintf("pair %s (%s) variant %s\ngoverter: ok=%v %s\nJ: ok=%v classes=%s", d.pair, d.label, d.variant, d.got.OK, d.got.Err+d.got.Panic, d.want.OK, classList(d.want.Classes)), Tags: tags})
	}
	rep.Exhaustive = true
	c03Random(e, rep)
	// CLI validation of a sample
	c03ValidateCLI(e, rep, unis[0].u, cliSamples, variants[0])
	c03TwoOutputs(e, rep)
	return rep.Finish()
}

func classList(m map[string]bool) string {
	var l []string
	for k := range m {
		l = append(l, k)
	}
	sort.Strings(l)
	return strings.Join(l, ",")
}

// classCompatible: goverter may report any first fault; its class must be one J found.
func classCompatible(cl string, want map[string]bool) bool {
	if want[cl] {
		return true
	}
	// the unexported-source class has no counterpart in goverter (known finding), enum subclasses are merged
	if cl == "enum-unknown-missing" && want["enum"] {
		return true
	}
	return false
}

// c03TwoOutputs: one run whose converters are emitted into DIFFERENT packages and convert the same structs with unexported
// fields: every converter is judged against its own output package (accessible in the structs' package, not elsewhere),
// in both orders and with ignoreUnexported / an explicit ignore on the foreign one (real CLI, fixed programs).
func c03TwoOutputs(e *core.Env, rep *core.Report) {
	bin, err := e.BuildCLI("plain")
	if err != nil {
		rep.Inconclusive = append(rep.Inconclusive, err.Error())
		return
	}
	root := filepath.Join(e.Scratch, "two-outputs")
	os.MkdirAll(root, 0o755)
	os.WriteFile(filepath.Join(root, "go.mod"), []byte("module vcase\n\ngo 1.22\n"), 0o644)
	types := "type In struct {\n\tName   string\n\tsecret string\n}\ntype Out struct {\n\tName   string\n\tsecret string\n}\n"
	type prog struct {
		name          string
		local, remote string // interface names: the alphabetical order is the processing order
		remoteLines   string
		wantOK        bool
	}
	var progs []prog
	for _, order := range [][2]string{{"ALocal", "ZRemote"}, {"ZLocal", "ARemote"}} {
		progs = append(progs,
			prog{"plain_" + order[0], order[0], order[1], "", false},
			prog{"ignoreunexported_" + order[0], order[0], order[1], "// goverter:ignoreUnexported\n", true},
			prog{"ignore_" + order[0], order[0], order[1], "", true})
	}
	for _, p := range progs {
		dir := filepath.Join(root, p.name)
		mline := ""
		if strings.HasPrefix(p.name, "ignore_") {
			mline = "\t// goverter:ignore secret\n"
		}
		src := "package p\n\n" + types + "\n// goverter:converter\n// goverter:output:file ./local_gen.go\n// goverter:output:package vcase/" + p.name + "/p\ntype " + p.local + " interface {\n\tConvert(source In) Out\n}\n\n" +
			"// goverter:converter\n" + p.remoteLines + "type " + p.remote + " interface {\n" + mline + "\tConvert(source In) Out\n}\n"
		os.MkdirAll(filepath.Join(dir, "p"), 0o755)
		os.WriteFile(filepath.Join(dir, "p", "input.go"), []byte(src), 0o644)
		res := core.RunCmd(bin, []string{"gen", "./p"}, core.RunOpts{Dir: dir, Env: e.GoEnv(), Timeout: 60 * time.Second})
		rep.Evaluations++
		rep.NonTrivial("twooutputs|" + p.name)
		rep.Count("two_output_package_programs", 1)
		det := fmt.Sprintf("exit=%d\nstderr=%s\n--- input ---\n%s", res.Exit, head(res.Stderr, 1200), src)
		switch {
		case !p.wantOK && res.Exit == 0:
			rep.Violation(&core.Viol{Kind: "accepts_unconvertible", Case: "twooutputs/" + p.name, Summary: "converter " + p.remote + " is emitted into ./generated and needs the unexported field 'secret' of package p, generation succeeded (a sibling converter emitted into p may use it) [unexported-source]", Detail: det, Dir: dir})
		case p.wantOK && res.Exit != 0:
			rep.Violation(&core.Viol{Kind: "rejects_convertible", Case: "twooutputs/" + p.name, Summary: "converter " + p.local + " is emitted into package p and may use its unexported fields, the sibling emitted elsewhere skips them; generation failed: " + firstLine(res.Stderr), Detail: det, Dir: dir})
		case p.wantOK:
			// the local one copies the field, the remote one does not mention it
			lb, _ := os.ReadFile(filepath.Join(dir, "p", "local_gen.go"))
			rb, _ := os.ReadFile(filepath.Join(dir, "p", "generated", "generated.go"))
			if !strings.Contains(string(lb), ".secret = source.secret") || strings.Contains(string(rb), "secret") {
				rep.Violation(&core.Viol{Kind: "accessibility_mixed_up", Case: "twooutputs/" + p.name, Summary: "the converter emitted into p must copy the unexported field, the one emitted into ./generated must not mention it", Detail: det + "\n--- local ---\n" + head(string(lb), 1500) + "\n--- remote ---\n" + head(string(rb), 1500), Dir: dir})
			}
		}
	}
}

// c03ValidateCLI re-runs a seed-selected sample of pairs through the real CLI and compares with the in-process outcome.
func c03ValidateCLI(e *core.Env, rep *core.Report, u *pgen.Universe, pool []c03Disagree, v c03Variant) {
	if len(pool) == 0 {
		return
	}
	bin, err := e.BuildCLI("plain")
	if err != nil {
		rep.Inconclusive = append(rep.Inconclusive, err.Error())
		return
	}
	r := rand.New(rand.NewSource(e.Seed + 99))
	n := tierN(e, 48, 200)
	// prefer pairs J descends into
	var pick []c03Disagree
	for tries := 0; len(pick) < n && tries < 100000; tries++ {
		d := pool[r.Intn(len(pool))]
		if d.want.Depth >= 1 || tries%10 == 0 {
			pick = append(pick, d)
		}
	}
	root := filepath.Join(e.Scratch, "cli-validate")
	os.MkdirAll(root, 0o755)
	os.WriteFile(filepath.Join(root, "go.mod"), []byte("module vcase\n\ngo 1.22\n"), 0o644)
	agree := 0
	var mu sync.Mutex
	core.Parallel(len(pick), func(k int) {
		d := pick[k]
		vu := *u
		vu.Root = fmt.Sprintf("vcase/v%03d", k)
		dir := filepath.Join(root, fmt.Sprintf("v%03d", k))
		for p, b := range vu.Files(func(i, j int) bool { return i == d.i && j == d.j }) {
			fp := filepath.Join(dir, p)
			os.MkdirAll(filepath.Dir(fp), 0o755)
			os.WriteFile(fp, []byte(b), 0o644)
		}
		args := []string{"gen"}
		for _, l := range v.lines {
			args = append(args, "-g", l)
		}
		args = append(args, "./"+u.Shards[u.Shard(d.i, d.j)].Path)
		res := core.RunCmd(bin, args, core.RunOpts{Dir: dir, Env: e.GoEnv(), Timeout: 60 * time.Second})
		cliOK := res.Exit == 0
		mu.Lock()
		defer mu.Unlock()
		if cliOK == d.got.OK && d.got.Panic == "" {
			agree++
		} else if d.got.Panic != "" && res.Exit == 2 {
			agree++
		} else {
			rep.Violation(&core.Viol{Kind: "cli_vs_inprocess", Case: d.label, Summary: fmt.Sprintf("CLI outcome (exit %d) differs from in-process outcome (ok=%v)", res.Exit, d.got.OK), Detail: res.Stderr, Dir: dir})
		}
	})
	rep.Extra["traces_validated_against_impl"] = agree
	rep.Extra["cli_validation_sample"] = len(pick)
}

// c03Random: deep random pairs beyond the enumerated universes: structural cases (convertible by construction) and the
// same cases with one breaking mutation of the target; J decides what the real CLI must answer.
func c03Random(e *core.Env, rep *core.Report) {
	n := tierN(e, 300, 6000)
	cases := structuralCorpus(e, n, func(i int, o *pgen.StructOpts) {
		o.NMethods = 1
		o.NConverters = 1
		o.Hostile = false
	})
	type exp struct {
		want judge.Result
		what string
	}
	expect := map[string]exp{}
	r := rand.New(rand.NewSource(e.Seed*6151 + 3))
	for i, c := range cases {
		what := "unchanged"
		if i%3 != 0 {
			if w := pgen.BreakTarget(rand.New(rand.NewSource(r.Int63())), c); w != "" {
				what = w
			}
		}
		for _, cv := range c.Convs {
			cv.Spec = nil
		}
		cv := c.Convs[0]
		m := cv.Methods[0]
		cfg := judge.Cfg{SkipCopy: m.Spec.Flags.SkipCopy, UseZero: m.Spec.Flags.UseZero, EnumOff: false}
		// accessibility: in the one-package layout everything is accessible from the output package
		cfg.SigPkg = cv.Pkg
		if c.Features["samepkg"] == "true" {
			cfg.OutPkg = cv.Pkg
		} else {
			cfg.OutPkg = &pgen.Package{Path: cv.OutPkgPath, Name: cv.OutPkgName}
		}
		expect[c.Name] = exp{want: judge.Convertible(m.Params[0].T, m.Result, cfg), what: what}
	}
	// struct pairs with method-level settings that change convertibility (map, ignore, autoMap, matchIgnoreCase,
	// ignoreMissing, ignoreUnexported): generated pairs are convertible by construction, the negative programs are not
	nf := tierN(e, 60, 1200)
	fieldWant := map[string]bool{}
	for i := 0; i < nf; i++ {
		fc := pgen.FieldCase(rand.New(rand.NewSource(r.Int63())), fmt.Sprintf("fs%05d", i), pgen.FieldOpts{Format: formats[i%3], Seed: int64(i)})
		for _, cv := range fc.Convs {
			cv.Spec = nil
		}
		fieldWant[fc.Name] = true
		cases = append(cases, fc)
	}
	for _, nc := range pgen.NegativeFieldCases() {
		fieldWant[nc.Name] = false
		cases = append(cases, nc)
	}
	p, err := runPipelineOpts(e, "c03r", cases, pipeOpts{Execute: false})
	if err != nil {
		rep.Inconclusive = append(rep.Inconclusive, err.Error())
		return
	}
	for _, cr := range p.Mod.Cases {
		if want, ok := fieldWant[cr.Case.Name]; ok {
			rep.Evaluations++
			rep.Count("struct_pairs_with_field_settings", 1)
			got := cr.Gen.Exit == 0
			if cr.Gen.Exit != 0 && cr.Gen.Exit != 1 {
				rep.Violation(&core.Viol{Kind: "panic", Case: cr.Case.Name, Summary: "goverter crashed: " + panicSite(cr.Gen.Stderr), Detail: cr.Gen.Stderr, Dir: cr.Dir})
			} else if got != want {
				kind := "accepts_unconvertible"
				what := cr.Case.Features["negative"]
				if want {
					kind, what = "rejects_convertible", cr.Case.Features["fieldkinds"]
				}
				rep.Violation(&core.Viol{Kind: kind, Case: cr.Case.Name, Summary: fmt.Sprintf("struct pair with field settings (%s): expected ok=%v, goverter exit %d (%s)", what, want, cr.Gen.Exit, core.Classify(cr.Gen.Stderr)), Detail: cr.Case.Note + "\n" + cr.Gen.Stderr, Dir: cr.Dir})
			} else {
				rep.NonTrivial("fieldsettings|" + cr.Case.Fingerprint() + cr.Case.Features["negative"])
			}
			continue
		}
		ex := expect[cr.Case.Name]
		rep.Evaluations++
		rep.Count("random_deep_pairs", 1)
		got := cr.Gen.Exit == 0
		if cr.Gen.Exit != 0 && cr.Gen.Exit != 1 {
			rep.Violation(&core.Viol{Kind: "panic", Case: cr.Case.Name, Summary: "goverter crashed on a random deep pair: " + panicSite(cr.Gen.Stderr), Detail: cr.Gen.Stderr, Dir: cr.Dir})
			continue
		}
		if ex.want.OK {
			rep.Count("random_judged_convertible", 1)
		} else {
			rep.Count("random_judged_not_convertible", 1)
		}
		if !got && strings.Contains(strings.ToLower(cr.Gen.Stderr), "compile error") {
			// the generated INPUT does not compile: a bug of the generator, not a verdict about goverter
			rep.Count("random_inputs_not_compiling", 1)
			continue
		}
		if got != ex.want.OK {
			kind := "accepts_unconvertible"
			if ex.want.OK {
				kind = "rejects_convertible"
			}
			rep.Violation(&core.Viol{Kind: kind, Case: cr.Case.Name, Summary: fmt.Sprintf("random deep pair (%s): J says ok=%v [%s], goverter exit %d (%s)", mutationClass(ex.what), ex.want.OK, classList(ex.want.Classes), cr.Gen.Exit, core.Classify(cr.Gen.Stderr)),
				Detail: "mutation: " + ex.what + "\nfeatures: " + featureString(cr.Case) + "\n" + cr.Gen.Stderr, Dir: cr.Dir, Tags: caseTags(cr.Case)})
			continue
		}
		if !got && len(cr.Written) > 0 {
			rep.Violation(&core.Viol{Kind: "emits_on_failure", Case: cr.Case.Name, Summary: "rejected pair but files were written", Dir: cr.Dir})
		}
		rep.NonTrivial("random|" + cr.Case.Fingerprint() + "|" + ex.what)
		rep.Set("random_mutations", mutationClass(ex.what))
	}
	if len(p.Dropped) > 0 {
		rep.Extra["random_inputs_dropped"] = len(p.Dropped)
	}
}

func mutationClass(w string) string {
	if i := strings.Index(w, ": "); i >= 0 {
		return w[i+2:]
	}
	return w
}

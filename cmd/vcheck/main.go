// vcheck is the driver of the verification checks.
//
//	vcheck run <property> [--tier quick|thorough]
//	vcheck replay <path>
package main

import (
	"fmt"
	"os"

	"verif/checks"
	"verif/internal/core"
)

func main() {
	if len(os.Args) >= 2 && os.Args[1] == "selftest" {
		os.Args = append(os.Args, "-")
	}
	if len(os.Args) < 3 {
		fmt.Fprintln(os.Stderr, "usage: vcheck run <property> [--tier quick|thorough] | vcheck replay <path>")
		os.Exit(3)
	}
	switch os.Args[1] {
	case "run":
		prop := os.Args[2]
		tier := os.Getenv("VERIF_TIER")
		for i := 3; i < len(os.Args); i++ {
			if os.Args[i] == "--tier" && i+1 < len(os.Args) {
				tier = os.Args[i+1]
			}
		}
		if tier == "" {
			tier = "quick"
		}
		chk, ok := checks.Registry[prop]
		if !ok {
			fmt.Fprintln(os.Stderr, "unknown property", prop)
			os.Exit(3)
		}
		e, err := core.NewEnv(prop, tier)
		if err != nil {
			fmt.Fprintln(os.Stderr, err)
			os.Exit(3)
		}
		code := chk(e)
		e.Cleanup()
		os.Exit(code)
	case "replay":
		os.Exit(checks.Replay(os.Args[2]))
	case "selftest":
		e, err := core.NewEnv("selftest", "quick")
		if err != nil {
			fmt.Fprintln(os.Stderr, err)
			os.Exit(3)
		}
		code := checks.SelfTest(e)
		e.Cleanup()
		os.Exit(code)
	default:
		fmt.Fprintln(os.Stderr, "unknown command", os.Args[1])
		os.Exit(3)
	}
}

package core

import (
	"bufio"
	"crypto/sha1"
	"encoding/json"
	"fmt"
	"os"
	"path/filepath"
	"regexp"
	"sort"
	"strings"
	"time"
)

// Finding is one line of known-findings.txt.
type Finding struct {
	Prop  string
	ID    string
	Kind  string
	Match *regexp.Regexp
	Tag   string
	TagRe *regexp.Regexp
	Desc  string
}

// LoadFindings parses /verif/known-findings.txt. Lines:
//
//	finding: property=C02 id=F1 kind=panic tag=array-assign match=<regex> :: description
//	fixed: property=C13 <commit> <what failed>
func LoadFindings(verif string) ([]Finding, error) {
	f, err := os.Open(filepath.Join(verif, "known-findings.txt"))
	if err != nil {
		if os.IsNotExist(err) {
			return nil, nil
		}
		return nil, err
	}
	defer f.Close()
	var out []Finding
	sc := bufio.NewScanner(f)
	for sc.Scan() {
		l := strings.TrimSpace(sc.Text())
		if !strings.HasPrefix(l, "finding:") {
			continue
		}
		l = strings.TrimSpace(strings.TrimPrefix(l, "finding:"))
		desc := ""
		if i := strings.Index(l, " :: "); i >= 0 {
			desc = l[i+4:]
			l = l[:i]
		}
		fd := Finding{Desc: desc}
		// match= is last and may contain spaces
		if i := strings.Index(l, " match="); i >= 0 {
			re, err := regexp.Compile("(?s)" + l[i+7:])
			if err != nil {
				return nil, fmt.Errorf("known-findings: bad regexp %q: %v", l[i+7:], err)
			}
			fd.Match = re
			l = l[:i]
		}
		for _, kv := range strings.Fields(l) {
			p := strings.SplitN(kv, "=", 2)
			if len(p) != 2 {
				continue
			}
			switch p[0] {
			case "property":
				fd.Prop = p[1]
			case "id":
				fd.ID = p[1]
			case "kind":
				fd.Kind = p[1]
			case "tag":
				fd.Tag = p[1]
			case "tagre":
				re, err := regexp.Compile("^(" + p[1] + ")$")
				if err != nil {
					return nil, fmt.Errorf("known-findings: bad tagre %q: %v", p[1], err)
				}
				fd.TagRe = re
			}
		}
		out = append(out, fd)
	}
	return out, nil
}

// Viol is one violation found by a check.
type Viol struct {
	Kind    string            `json:"kind"`
	Case    string            `json:"case"`
	Summary string            `json:"summary"`
	Detail  string            `json:"detail"`
	Tags    []string          `json:"tags,omitempty"`
	Files   map[string][]byte `json:"-"`
	Dir     string            `json:"-"` // directory to copy into the replay
	Replay  string            `json:"replay,omitempty"`
	Known   string            `json:"known_finding,omitempty"`
	Meta    map[string]any    `json:"meta,omitempty"`
}

// Report accumulates what a check observed and renders verdict + evidence.
type Report struct {
	Env          *Env
	Prop         string
	Level        string
	Rule         string
	Evaluations  int
	distinct     map[string]bool
	Samples      []any
	Extra        map[string]any
	Assumptions  []string
	Viols        []*Viol
	Inconclusive []string
	findings     []Finding
	Floor        int // minimal distinct_nontrivial for a conclusive run
	Exhaustive   bool
}

func NewReport(e *Env, level string) *Report {
	r := &Report{Env: e, Prop: e.Prop, Level: level, distinct: map[string]bool{}, Extra: map[string]any{}}
	fs, err := LoadFindings(e.Verif)
	if err != nil {
		r.Inconclusive = append(r.Inconclusive, err.Error())
	}
	for _, f := range fs {
		if f.Prop == e.Prop {
			r.findings = append(r.findings, f)
		}
	}
	return r
}

// NonTrivial records a distinct non-trivial case fingerprint.
func (r *Report) NonTrivial(fp string) {
	h := sha1.Sum([]byte(fp))
	r.distinct[fmt.Sprintf("%x", h[:8])] = true
}

func (r *Report) Distinct() int { return len(r.distinct) }

func (r *Report) Sample(v any) {
	if len(r.Samples) < 6 {
		r.Samples = append(r.Samples, v)
	}
}

// Count adds n to a named counter in the evidence.
func (r *Report) Count(key string, n int) {
	cur, _ := r.Extra[key].(int)
	r.Extra[key] = cur + n
}

// Set marks key in a named set (reported as sorted list + size).
func (r *Report) Set(key, val string) {
	m, _ := r.Extra[key].(map[string]int)
	if m == nil {
		m = map[string]int{}
		r.Extra[key] = m
	}
	m[val]++
}

// Violation records a violation (matched against the known findings at Finish).
func (r *Report) Violation(v *Viol) {
	r.Viols = append(r.Viols, v)
}

func (r *Report) match(v *Viol) *Finding {
	for i := range r.findings {
		f := &r.findings[i]
		if f.Kind != "" && f.Kind != v.Kind {
			continue
		}
		if f.Tag != "" {
			ok := false
			for _, t := range v.Tags {
				if t == f.Tag {
					ok = true
				}
			}
			if !ok {
				continue
			}
		}
		if f.TagRe != nil {
			ok := false
			for _, t := range v.Tags {
				if f.TagRe.MatchString(t) {
					ok = true
				}
			}
			if !ok {
				continue
			}
		}
		if f.Match != nil && !f.Match.MatchString(v.Summary+"\n"+v.Detail) {
			continue
		}
		return f
	}
	return nil
}

// Finish writes evidence, prints verdict lines and returns the exit code.
func (r *Report) Finish() int {
	wall := time.Since(r.Env.Start).Seconds()
	knownSeen := map[string]*Finding{}
	knownCount := map[string]int{}
	var fresh []*Viol
	for _, v := range r.Viols {
		if f := r.match(v); f != nil {
			v.Known = f.ID
			knownSeen[f.ID] = f
			knownCount[f.ID]++
			continue
		}
		fresh = append(fresh, v)
	}
	// de-duplicate fresh violations by kind+summary, keep at most 10 replays
	sort.SliceStable(fresh, func(i, j int) bool { return fresh[i].Kind+fresh[i].Summary < fresh[j].Kind+fresh[j].Summary })
	seen := map[string]bool{}
	var uniq []*Viol
	for _, v := range fresh {
		k := v.Kind + "|" + v.Summary
		if seen[k] {
			continue
		}
		seen[k] = true
		uniq = append(uniq, v)
	}
	outBase := r.Env.Verif
	if d := os.Getenv("VERIF_OUT_DIR"); d != "" {
		// mutant campaigns redirect evidence and replays so that the committed evidence is not overwritten
		outBase = d
	}
	replayRoot := filepath.Join(outBase, "replays", r.Prop)
	os.RemoveAll(replayRoot) // replays always belong to the latest run
	if len(uniq) > 0 {
		// keep replay sources out of the driver module
		os.MkdirAll(filepath.Join(outBase, "replays"), 0o755)
		os.WriteFile(filepath.Join(outBase, "replays", "go.mod"), []byte("module replays\n\ngo 1.22\n"), 0o644)
	}
	for i, v := range uniq {
		if i >= 10 {
			break
		}
		h := sha1.Sum([]byte(v.Kind + v.Summary + v.Case))
		dir := filepath.Join(replayRoot, fmt.Sprintf("%s-%x", v.Kind, h[:5]))
		os.RemoveAll(dir)
		os.MkdirAll(dir, 0o755)
		if v.Dir != "" {
			copyTree(v.Dir, filepath.Join(dir, "case"))
		}
		for p, b := range v.Files {
			fp := filepath.Join(dir, p)
			os.MkdirAll(filepath.Dir(fp), 0o755)
			os.WriteFile(fp, b, 0o644)
		}
		v.Replay = dir
		meta := map[string]any{"property": r.Prop, "kind": v.Kind, "case": v.Case, "summary": v.Summary, "detail": v.Detail, "tags": v.Tags, "seed": r.Env.Seed, "tier": r.Env.Tier, "meta": v.Meta}
		b, _ := json.MarshalIndent(meta, "", " ")
		os.WriteFile(filepath.Join(dir, "violation.json"), b, 0o644)
	}
	if len(uniq) > 0 {
		var sb strings.Builder
		for _, v := range uniq {
			fmt.Fprintf(&sb, "%s\t%s\t%s\t%s\n", v.Kind, v.Case, strings.Join(v.Tags, ","), oneLine(v.Summary, 400))
		}
		os.MkdirAll(replayRoot, 0o755)
		os.WriteFile(filepath.Join(replayRoot, "all-violations.txt"), []byte(sb.String()), 0o644)
	}
	cov := map[string]any{
		"evaluations":         r.Evaluations,
		"distinct_nontrivial": len(r.distinct),
		"rule":                r.Rule,
		"samples":             r.Samples,
	}
	if r.Exhaustive {
		cov["exhaustive"] = true
	}
	for k, v := range r.Extra {
		if m, ok := v.(map[string]int); ok {
			cov[k] = m
			cov[k+"_distinct"] = len(m)
			continue
		}
		cov[k] = v
	}
	var kf []string
	var ids []string
	for id := range knownSeen {
		ids = append(ids, id)
	}
	sort.Strings(ids)
	for _, id := range ids {
		kf = append(kf, fmt.Sprintf("%s x%d", id, knownCount[id]))
	}
	cov["known_findings_seen"] = kf
	cov["inconclusive"] = r.Inconclusive
	if len(r.Samples) == 0 {
		cov["samples"] = []any{"(no case was explored)"}
	}
	ev := map[string]any{
		"property_id": r.Prop,
		"tier":        r.Env.Tier,
		"seed":        r.Env.Seed,
		"level":       r.Level,
		"coverage":    cov,
		"assumptions": r.Assumptions,
		"wall_s":      wall,
		"violations":  len(uniq),
	}
	os.MkdirAll(filepath.Join(outBase, "evidence"), 0o755)
	b, _ := json.MarshalIndent(ev, "", " ")
	os.WriteFile(filepath.Join(outBase, "evidence", r.Prop+".json"), b, 0o644)

	for _, id := range ids {
		fmt.Printf("KNOWN-FINDING: property=%s %s (%s; seen %d times)\n", r.Prop, knownSeen[id].Desc, id, knownCount[id])
	}
	fmt.Printf("SUMMARY property=%s tier=%s seed=%d evaluations=%d distinct_nontrivial=%d violations=%d known=%d wall=%.1fs\n",
		r.Prop, r.Env.Tier, r.Env.Seed, r.Evaluations, len(r.distinct), len(uniq), len(ids), wall)
	if len(uniq) > 0 {
		for i, v := range uniq {
			if i >= 10 {
				fmt.Printf("... and %d more distinct violations\n", len(uniq)-10)
				break
			}
			fmt.Printf("VIOLATION property=%s replay=%s\n", r.Prop, v.Replay)
			fmt.Printf("  kind=%s case=%s: %s\n", v.Kind, v.Case, oneLine(v.Summary, 300))
		}
		return 1
	}
	if len(r.Inconclusive) > 0 {
		for _, s := range r.Inconclusive {
			fmt.Printf("INCONCLUSIVE property=%s reason=%s\n", r.Prop, oneLine(s, 500))
		}
		return 2
	}
	if len(r.distinct) < r.Floor || len(r.distinct) < 2 {
		fmt.Printf("INCONCLUSIVE property=%s reason=only %d distinct non-trivial cases observed (floor %d)\n", r.Prop, len(r.distinct), r.Floor)
		return 2
	}
	fmt.Printf("HELD property=%s on everything explored\n", r.Prop)
	return 0
}

func oneLine(s string, n int) string {
	s = strings.Join(strings.Fields(s), " ")
	if len(s) > n {
		s = s[:n] + "..."
	}
	return s
}

func copyTree(src, dst string) {
	filepath.Walk(src, func(p string, info os.FileInfo, err error) error {
		if err != nil {
			return nil
		}
		rel, _ := filepath.Rel(src, p)
		if info.IsDir() {
			os.MkdirAll(filepath.Join(dst, rel), 0o755)
			return nil
		}
		if info.Size() > 2<<20 {
			return nil
		}
		b, err := os.ReadFile(p)
		if err == nil {
			os.WriteFile(filepath.Join(dst, rel), b, 0o644)
		}
		return nil
	})
}

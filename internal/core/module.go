package core

import (
	"bufio"
	"encoding/json"
	"fmt"
	"io/fs"
	"os"
	"os/exec"
	"path/filepath"
	"regexp"
	"sort"
	"strings"
	"time"

	"verif/internal/pgen"
	"verif/vref"
)

// Module is a scratch Go module ("vcase") that holds many generated cases.
type Module struct {
	Env   *Env
	Dir   string
	Cases []*CaseRun
	// Asserts: also write the API assertion files (C01).
	Asserts bool
	// ModuleBuildErr is set when the module failed to build for reasons outside any case.
	ModuleBuildErr string
	// CoverDir, when set, is passed as GOCOVERDIR to every CLI run (use with the cover-instrumented binary).
	CoverDir string
	// AltBin maps the case feature "cli" to an alternative CLI binary (e.g. a customised goverter main).
	AltBin map[string]string
	// GenTimeout is the watchdog of one CLI run.
	GenTimeout time.Duration
}

// CaseRun is a case plus everything observed about it.
type CaseRun struct {
	Case         *pgen.Case
	Dir          string
	Gen          CLIResult
	Generated    bool
	Written      map[string][]byte // emitted files (relative to module dir) after generation
	BuildErr     string            // compiler diagnostics for packages of this case
	Built        bool
	Events       []json.RawMessage
	Methods      []vref.MethodEvent
	Crashed      string // fatal error output when the batch died inside this case
	Began        bool
	Ended        bool
	HarnessPanic string
}

// NewModule creates the scratch module with the vref harness inside.
func NewModule(e *Env, name string) (*Module, error) {
	dir := filepath.Join(e.Scratch, name)
	if err := os.MkdirAll(filepath.Join(dir, "vref"), 0o755); err != nil {
		return nil, err
	}
	if err := os.WriteFile(filepath.Join(dir, "go.mod"), []byte("module vcase\n\ngo 1.21\n"), 0o644); err != nil {
		return nil, err
	}
	err := fs.WalkDir(vref.Sources, ".", func(p string, d fs.DirEntry, err error) error {
		if err != nil || d.IsDir() {
			return err
		}
		b, err := vref.Sources.ReadFile(p)
		if err != nil {
			return err
		}
		if strings.HasPrefix(p, "errs/") {
			// the wrapErrorsUsing recorder lives at vcase/errs (and stays below vref for the embed directive)
			os.MkdirAll(filepath.Join(dir, "errs"), 0o755)
			os.MkdirAll(filepath.Join(dir, "vref", "errs"), 0o755)
			if err := os.WriteFile(filepath.Join(dir, p), b, 0o644); err != nil {
				return err
			}
		}
		return os.WriteFile(filepath.Join(dir, "vref", p), b, 0o644)
	})
	if err != nil {
		return nil, err
	}
	return &Module{Env: e, Dir: dir}, nil
}

// Add writes the input files of a case.
func (m *Module) Add(c *pgen.Case) (*CaseRun, error) {
	cr := &CaseRun{Case: c, Dir: filepath.Join(m.Dir, c.Name)}
	for rel, body := range c.Files() {
		p := filepath.Join(cr.Dir, rel)
		if err := os.MkdirAll(filepath.Dir(p), 0o755); err != nil {
			return nil, err
		}
		if err := os.WriteFile(p, []byte(body), 0o644); err != nil {
			return nil, err
		}
	}
	m.Cases = append(m.Cases, cr)
	return cr, nil
}

// snapshot lists regular files below dir with their content.
func snapshot(dir string) map[string][]byte {
	out := map[string][]byte{}
	filepath.Walk(dir, func(p string, info os.FileInfo, err error) error {
		if err != nil || info.IsDir() {
			return nil
		}
		b, err := os.ReadFile(p)
		if err == nil {
			rel, _ := filepath.Rel(dir, p)
			out[rel] = b
		}
		return nil
	})
	return out
}

// VetInputs type-checks the generated inputs with -tags goverter (what goverter will load).
// Cases whose input does not compile are generator bugs: they are dropped and reported.
func (m *Module) VetInputs() (dropped []string) {
	cmd := exec.Command("go", "build", "-tags", "goverter", "./...")
	cmd.Dir = m.Dir
	cmd.Env = m.Env.GoEnv()
	out, err := cmd.CombinedOutput()
	if err == nil {
		return nil
	}
	bad := map[string]string{}
	for _, pk := range parseBuildErrors(string(out)) {
		parts := strings.Split(strings.TrimPrefix(pk.pkg, "vcase/"), "/")
		bad[parts[0]] += pk.text
	}
	var keep []*CaseRun
	for _, cr := range m.Cases {
		if txt, ok := bad[cr.Case.Name]; ok {
			dropped = append(dropped, cr.Case.Name+": "+firstLines(txt, 3))
			os.RemoveAll(cr.Dir)
			continue
		}
		keep = append(keep, cr)
	}
	m.Cases = keep
	return dropped
}

func firstLines(s string, n int) string {
	l := strings.Split(strings.TrimSpace(s), "\n")
	if len(l) > n {
		l = l[:n]
	}
	return strings.Join(l, " | ")
}

type pkgErr struct{ pkg, text string }

var pkgHdr = regexp.MustCompile(`^# (\S+)`)

func parseBuildErrors(out string) []pkgErr {
	var res []pkgErr
	var cur *pkgErr
	for _, l := range strings.Split(out, "\n") {
		if mm := pkgHdr.FindStringSubmatch(l); mm != nil {
			res = append(res, pkgErr{pkg: mm[1]})
			cur = &res[len(res)-1]
			continue
		}
		if cur != nil {
			cur.text += l + "\n"
		} else if strings.TrimSpace(l) != "" {
			// errors without header (e.g. import cycle, missing package): attribute by path
			if i := strings.Index(l, "vcase/"); i >= 0 {
				rest := l[i:]
				j := strings.IndexAny(rest, " :\"")
				if j < 0 {
					j = len(rest)
				}
				res = append(res, pkgErr{pkg: rest[:j], text: l + "\n"})
			} else if strings.HasPrefix(l, "c") || strings.Contains(l, ".go:") {
				// relative file path "c0001/p/x.go:3:4: ..."
				f := strings.SplitN(l, ":", 2)[0]
				res = append(res, pkgErr{pkg: "vcase/" + filepath.Dir(f), text: l + "\n"})
			}
		}
	}
	return res
}

func (m *Module) genTimeout() time.Duration {
	if m.GenTimeout > 0 {
		return m.GenTimeout
	}
	return 120 * time.Second
}

// Generate runs the real CLI once per case, in parallel.
func (m *Module) Generate(bin string) {
	Parallel(len(m.Cases), func(i int) {
		cr := m.Cases[i]
		before := snapshot(cr.Dir)
		args := append([]string{"gen"}, cr.Case.Args...)
		pats := cr.Case.Patterns
		if len(pats) == 0 {
			pats = []string{"./..."}
		}
		args = append(args, pats...)
		if cr.Case.RawArgs != nil {
			args = cr.Case.RawArgs
		}
		useBin := bin
		if alt, ok := m.AltBin[cr.Case.Features["cli"]]; ok && alt != "" {
			useBin = alt
		}
		env := m.Env.GoEnv()
		if m.CoverDir != "" {
			env = append(env, "GOCOVERDIR="+m.CoverDir)
		}
		cr.Gen = RunCmd(useBin, args, RunOpts{Dir: cr.Dir, Env: env, Timeout: m.genTimeout()})
		after := snapshot(cr.Dir)
		cr.Written = map[string][]byte{}
		for p, b := range after {
			if ob, ok := before[p]; !ok || string(ob) != string(b) {
				cr.Written[p] = b
			}
		}
		cr.Generated = cr.Gen.Exit == 0 && !cr.Gen.TimedOut
		// record the run for replays
		var written []string
		for p := range cr.Written {
			written = append(written, p)
		}
		sort.Strings(written)
		rec, _ := json.MarshalIndent(map[string]any{"case": cr.Case.Name, "args": args, "cli": cr.Case.Features["cli"], "exit": cr.Gen.Exit, "stderr": cr.Gen.Stderr, "written": written, "glue_pkgs": cr.Case.GluePkgs, "nconvs": len(cr.Case.Convs)}, "", " ")
		os.WriteFile(filepath.Join(cr.Dir, "verif-run.json"), rec, 0o644)
	})
}

// WriteGlue writes the glue packages of all generated cases.
func (m *Module) WriteGlue() {
	for _, cr := range m.Cases {
		if !cr.Generated {
			continue
		}
		for p, body := range cr.Case.PostFiles {
			full := filepath.Join(cr.Dir, p)
			os.MkdirAll(filepath.Dir(full), 0o755)
			os.WriteFile(full, []byte(body), 0o644)
		}
		for i, cv := range cr.Case.Convs {
			if cv.Spec == nil {
				continue
			}
			p, body := cr.Case.Glue(i, cv)
			full := filepath.Join(cr.Dir, p)
			os.MkdirAll(filepath.Dir(full), 0o755)
			os.WriteFile(full, []byte(body), 0o644)
			if m.Asserts {
				if ap, abody := cr.Case.Assert(i, cv); ap != "" {
					full := filepath.Join(cr.Dir, ap)
					os.MkdirAll(filepath.Dir(full), 0o755)
					os.WriteFile(full, []byte(abody), 0o644)
				}
			}
		}
	}
}

// Build compiles every package of the module; diagnostics are attributed to cases.
func (m *Module) Build(race bool) {
	args := []string{"build"}
	if race {
		args = append(args, "-race")
	}
	args = append(args, "./...")
	cmd := exec.Command("go", args...)
	cmd.Dir = m.Dir
	cmd.Env = m.Env.GoEnv()
	out, err := cmd.CombinedOutput()
	bad := map[string]string{}
	if err != nil {
		for _, pk := range parseBuildErrors(string(out)) {
			parts := strings.Split(strings.TrimPrefix(pk.pkg, "vcase/"), "/")
			bad[parts[0]] += "# " + pk.pkg + "\n" + pk.text
		}
		// diagnostics that name a directory of the module instead of a package ("found packages a and b in <dir>")
		for _, l := range strings.Split(string(out), "\n") {
			if i := strings.Index(l, m.Dir+"/"); i >= 0 && !strings.HasPrefix(l, "#") {
				rest := l[i+len(m.Dir)+1:]
				name := strings.SplitN(rest, "/", 2)[0]
				if !strings.Contains(bad[name], l) {
					bad[name] += l + "\n"
				}
			}
		}
		if len(bad) == 0 {
			bad["*"] = string(out)
		}
		// a failure in the shared harness packages is a failure of the whole module
		for _, shared := range []string{"vref", "errs", "zzbatch"} {
			if t, ok := bad[shared]; ok {
				bad["*"] = "harness package " + shared + " does not build: " + t
			}
		}
	}
	m.ModuleBuildErr = bad["*"]
	for _, cr := range m.Cases {
		if !cr.Generated {
			continue
		}
		if t, ok := bad["*"]; ok && t != "" {
			cr.BuildErr = "module build failed: " + t
		} else if t, ok := bad[cr.Case.Name]; ok {
			cr.BuildErr = t
		} else if t, ok := bad["*"]; ok {
			cr.BuildErr = "module build failed: " + t
		} else {
			cr.Built = true
		}
	}
}

// RunBatch links all built cases into one binary and executes it (restarting after a crash).
func (m *Module) RunBatch(race bool, timeout time.Duration) error {
	var built []*CaseRun
	for _, cr := range m.Cases {
		if cr.Built {
			n := len(cr.Case.GluePkgs)
			for _, cv := range cr.Case.Convs {
				if cv.Spec != nil {
					n++
				}
			}
			if n > 0 {
				built = append(built, cr)
			}
		}
	}
	if len(built) == 0 {
		return nil
	}
	mainDir := filepath.Join(m.Dir, "zzbatch")
	os.MkdirAll(mainDir, 0o755)
	var sb strings.Builder
	sb.WriteString("package main\n\nimport (\n\t\"os\"\n\t\"vcase/vref\"\n")
	type gl struct{ alias, caseName string }
	var gls []gl
	for _, cr := range built {
		for i, cv := range cr.Case.Convs {
			if cv.Spec == nil {
				continue
			}
			alias := fmt.Sprintf("%s_g%d", cr.Case.Name, i)
			fmt.Fprintf(&sb, "\t%s \"vcase/%s/glue%d\"\n", alias, cr.Case.Name, i)
			gls = append(gls, gl{alias, cr.Case.Name})
		}
		for i, gp := range cr.Case.GluePkgs {
			alias := fmt.Sprintf("%s_x%d", cr.Case.Name, i)
			fmt.Fprintf(&sb, "\t%s \"vcase/%s/%s\"\n", alias, cr.Case.Name, gp)
			gls = append(gls, gl{alias, cr.Case.Name})
		}
	}
	sb.WriteString(")\n\nfunc main() {\n\to := vref.Open(os.Args[1:])\n")
	for _, g := range gls {
		fmt.Fprintf(&sb, "\to.Do(%q, %s.Run)\n", g.caseName, g.alias)
	}
	sb.WriteString("\to.Close()\n}\n")
	os.WriteFile(filepath.Join(mainDir, "main.go"), []byte(sb.String()), 0o644)
	bin := filepath.Join(m.Dir, "zzbatch.bin")
	args := []string{"build"}
	if race {
		args = append(args, "-race")
	}
	args = append(args, "-o", bin, "./zzbatch")
	cmd := exec.Command("go", args...)
	cmd.Dir = m.Dir
	cmd.Env = m.Env.GoEnv()
	if out, err := cmd.CombinedOutput(); err != nil {
		return fmt.Errorf("linking batch failed: %v\n%s", err, out)
	}
	byName := map[string]*CaseRun{}
	for _, cr := range built {
		byName[cr.Case.Name] = cr
	}
	logf := filepath.Join(m.Dir, "events.jsonl")
	os.Remove(logf)
	var skip []string
	env := m.Env.GoEnv()
	if race {
		env = append(env, "GORACE=halt_on_error=0 log_path="+filepath.Join(m.Dir, "race.log"))
	}
	for attempt := 0; attempt < len(built)+1; attempt++ {
		res := RunCmd(bin, append([]string{logf}, skip...), RunOpts{Dir: m.Dir, Env: env, Timeout: timeout})
		done, inflight := m.readEvents(logf, byName)
		if done {
			break
		}
		if inflight == "" {
			return fmt.Errorf("batch died outside any case: exit=%d %s", res.Exit, tail(res.Stderr, 2000))
		}
		cr := byName[inflight]
		if res.TimedOut {
			cr.Crashed = "TIMEOUT after " + timeout.String() + "\n" + tail(res.Stderr, 3000)
		} else {
			cr.Crashed = fmt.Sprintf("exit=%d signal=%s\n%s", res.Exit, res.Signal, head(res.Stderr, 3000))
		}
		// skip everything that already ran
		skip = skip[:0]
		for _, c := range built {
			if c.Began {
				skip = append(skip, c.Case.Name)
			}
		}
	}
	return nil
}

func tail(s string, n int) string {
	if len(s) > n {
		return s[len(s)-n:]
	}
	return s
}

func head(s string, n int) string {
	if len(s) > n {
		return s[:n]
	}
	return s
}

// readEvents folds the event log into the case runs; it returns whether the batch
// finished and, if not, the case that was in flight.
func (m *Module) readEvents(logf string, byName map[string]*CaseRun) (bool, string) {
	f, err := os.Open(logf)
	if err != nil {
		return false, ""
	}
	defer f.Close()
	for _, cr := range byName {
		cr.Methods = nil
		cr.Events = nil
	}
	sc := bufio.NewScanner(f)
	sc.Buffer(make([]byte, 1<<20), 1<<26)
	done := false
	inflight := ""
	for sc.Scan() {
		line := append([]byte{}, sc.Bytes()...)
		var hdr struct {
			Ev    string `json:"ev"`
			Case  string `json:"case"`
			Panic string `json:"panic"`
			Stack string `json:"stack"`
		}
		if json.Unmarshal(line, &hdr) != nil {
			continue
		}
		cr := byName[hdr.Case]
		switch hdr.Ev {
		case "begin":
			inflight = hdr.Case
			if cr != nil {
				cr.Began = true
			}
		case "end":
			inflight = ""
			if cr != nil {
				cr.Ended = true
			}
		case "batch_end":
			done = true
		case "method":
			if cr != nil {
				var me vref.MethodEvent
				if json.Unmarshal(line, &me) == nil {
					cr.Methods = append(cr.Methods, me)
				}
			}
		case "harness_panic":
			if cr != nil {
				cr.HarnessPanic = hdr.Panic + "\n" + hdr.Stack
			}
		default:
			if cr != nil {
				cr.Events = append(cr.Events, line)
			}
		}
	}
	return done, inflight
}

// RaceReports parses the race detector logs of the last batch.
func (m *Module) RaceReports() []string {
	files, _ := filepath.Glob(filepath.Join(m.Dir, "race.log.*"))
	sort.Strings(files)
	var reports []string
	for _, f := range files {
		b, err := os.ReadFile(f)
		if err != nil {
			continue
		}
		for _, blk := range strings.Split(string(b), "==================") {
			if strings.Contains(blk, "WARNING: DATA RACE") {
				reports = append(reports, strings.TrimSpace(blk))
			}
		}
	}
	return reports
}

// CoverPercent folds the coverage counters written by cover-instrumented CLI runs into statement coverage per package.
func CoverPercent(e *Env, dir string) map[string]string {
	out := map[string]string{}
	cmd := exec.Command("go", "tool", "covdata", "percent", "-i="+dir)
	cmd.Env = e.GoEnv()
	b, err := cmd.CombinedOutput()
	if err != nil {
		out["error"] = firstLines(string(b), 2)
		return out
	}
	for _, l := range strings.Split(string(b), "\n") {
		f := strings.Fields(l)
		if len(f) >= 3 && strings.HasPrefix(f[0], "github.com/jmattheis/goverter") {
			out[strings.TrimPrefix(f[0], "github.com/jmattheis/")] = f[2]
		}
	}
	return out
}

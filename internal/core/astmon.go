package core

import (
	"go/ast"
	"go/parser"
	"go/token"
	"strconv"
	"strings"
)

// FileFacts are the facts the AST monitor extracts from one emitted file.
type FileFacts struct {
	Path               string
	ParseErr           string
	Lines              []string // first lines verbatim (up to the package clause)
	HeaderOK           bool     // line 1 is the "Code generated ... DO NOT EDIT." comment
	Constraint         string   // text after //go:build on line 2, "" if absent
	HasConstr          bool
	BlankBeforePackage bool
	Package            string
	Imports            map[string]string   // path -> alias ("" if none)
	Types              map[string]string   // name -> kind (struct{} | struct | other)
	Funcs              []string            // top-level function names
	Methods            map[string][]string // receiver type -> method names
	Vars               []string
	Consts             []string
	InitAssigns        []string // qualified or plain identifiers assigned inside init()
	InitCount          int
	UsesIdent          map[string]bool // selector package identifiers used
}

// Analyze parses an emitted Go file.
func Analyze(path string, src []byte) *FileFacts {
	ff := &FileFacts{Path: path, Imports: map[string]string{}, Types: map[string]string{}, Methods: map[string][]string{}, UsesIdent: map[string]bool{}}
	text := string(src)
	lines := strings.Split(text, "\n")
	for i, l := range lines {
		ff.Lines = append(ff.Lines, l)
		if strings.HasPrefix(l, "package ") || i > 8 {
			break
		}
	}
	if len(lines) > 0 && strings.HasPrefix(lines[0], "// Code generated ") && strings.HasSuffix(lines[0], "DO NOT EDIT.") {
		ff.HeaderOK = true
	}
	if len(lines) > 1 && strings.HasPrefix(lines[1], "//go:build ") {
		ff.HasConstr = true
		ff.Constraint = strings.TrimPrefix(lines[1], "//go:build ")
	}
	for i, l := range lines {
		if strings.HasPrefix(l, "package ") {
			ff.BlankBeforePackage = i > 0 && strings.TrimSpace(lines[i-1]) == ""
			break
		}
	}
	fset := token.NewFileSet()
	f, err := parser.ParseFile(fset, path, src, parser.ParseComments)
	if err != nil {
		ff.ParseErr = err.Error()
		return ff
	}
	ff.Package = f.Name.Name
	for _, im := range f.Imports {
		p, _ := strconv.Unquote(im.Path.Value)
		alias := ""
		if im.Name != nil {
			alias = im.Name.Name
		}
		ff.Imports[p] = alias
	}
	for _, d := range f.Decls {
		switch d := d.(type) {
		case *ast.GenDecl:
			for _, s := range d.Specs {
				switch s := s.(type) {
				case *ast.TypeSpec:
					kind := "other"
					if st, ok := s.Type.(*ast.StructType); ok {
						kind = "struct"
						if st.Fields == nil || len(st.Fields.List) == 0 {
							kind = "struct{}"
						}
					}
					ff.Types[s.Name.Name] = kind
				case *ast.ValueSpec:
					for _, n := range s.Names {
						if d.Tok == token.CONST {
							ff.Consts = append(ff.Consts, n.Name)
						} else {
							ff.Vars = append(ff.Vars, n.Name)
						}
					}
				}
			}
		case *ast.FuncDecl:
			if d.Recv != nil && len(d.Recv.List) == 1 {
				rt := recvName(d.Recv.List[0].Type)
				ff.Methods[rt] = append(ff.Methods[rt], d.Name.Name)
				continue
			}
			ff.Funcs = append(ff.Funcs, d.Name.Name)
			if d.Name.Name == "init" {
				ff.InitCount++
				if d.Body != nil {
					for _, st := range d.Body.List {
						if as, ok := st.(*ast.AssignStmt); ok {
							for _, l := range as.Lhs {
								ff.InitAssigns = append(ff.InitAssigns, exprString(l))
							}
						}
					}
				}
			}
		}
	}
	ast.Inspect(f, func(n ast.Node) bool {
		if se, ok := n.(*ast.SelectorExpr); ok {
			if id, ok := se.X.(*ast.Ident); ok {
				ff.UsesIdent[id.Name] = true
			}
		}
		return true
	})
	return ff
}

func recvName(e ast.Expr) string {
	switch e := e.(type) {
	case *ast.StarExpr:
		return recvName(e.X)
	case *ast.Ident:
		return e.Name
	}
	return "?"
}

func exprString(e ast.Expr) string {
	switch e := e.(type) {
	case *ast.Ident:
		return e.Name
	case *ast.SelectorExpr:
		return exprString(e.X) + "." + e.Sel.Name
	}
	return "?"
}

package core

import (
	"regexp"
	"strings"
)

var classRules = []struct {
	name string
	re   *regexp.Regexp
}{
	{"panic", regexp.MustCompile(`(?m)^(panic:|fatal error:|goroutine \d+ \[)`)},
	{"pointer-mismatch", regexp.MustCompile(`unclear how nil should be handled`)},
	{"type-mismatch", regexp.MustCompile(`TypeMismatch: Cannot convert`)},
	{"no-source-field", regexp.MustCompile(`Cannot match the target field with the source entry: "[^"]*" does not exist`)},
	{"ambiguous-field", regexp.MustCompile(`multiple matches found`)},
	{"unexported-source", regexp.MustCompile(`Cannot read value of unexported field`)},
	{"unexported-target", regexp.MustCompile(`Cannot set value for unexported field`)},
	{"unknown-field", regexp.MustCompile(`Field "[^"]*" does not exist`)},
	{"path", regexp.MustCompile(`Cannot (access|find the mapped field)`)},
	{"enum-unknown-missing", regexp.MustCompile(`enum:unknown is not configured`)},
	{"enum", regexp.MustCompile(`(?i)enum`)},
	{"overlap", regexp.MustCompile(`Overlapping`)},
	{"context", regexp.MustCompile(`context`)},
	{"error-return", regexp.MustCompile(`returns error but|no error is returned|doesn't return an error`)},
	{"signature", regexp.MustCompile(`error parsing (converter method|type)`)},
	{"setting", regexp.MustCompile(`error parsing 'goverter:`)},
	{"load", regexp.MustCompile(`could not load package|failed to load package`)},
	{"usage", regexp.MustCompile(`^Error: `)},
}

// Classify maps a goverter diagnostic to a coarse class.
func Classify(stderr string) string {
	s := strings.TrimSpace(stderr)
	if s == "" {
		return "empty"
	}
	for _, r := range classRules {
		if r.re.MatchString(s) {
			return r.name
		}
	}
	return "other"
}

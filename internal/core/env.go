// Package core holds the plumbing shared by all checks: scratch directories,
// building and running the goverter CLI from the repository working tree,
// scratch modules for emitted code, evidence, findings and verdicts.
package core

import (
	"bytes"
	"context"
	"fmt"
	"os"
	"os/exec"
	"path/filepath"
	"runtime"
	"strconv"
	"strings"
	"sync"
	"syscall"
	"time"
)

// Env is the environment of one check run.
type Env struct {
	Prop    string
	Tier    string
	Seed    int64
	Repo    string
	Verif   string
	Scratch string
	GoCache string
	Start   time.Time
	mu      sync.Mutex
	bins    map[string]string
	Keep    bool
}

// NewEnv prepares the scratch directory for a check.
func NewEnv(prop, tier string) (*Env, error) {
	e := &Env{Prop: prop, Tier: tier, Start: time.Now(), bins: map[string]string{}}
	e.Repo = os.Getenv("VERIF_REPO")
	if e.Repo == "" {
		e.Repo = "/repo"
	}
	e.Verif = os.Getenv("VERIF_HOME")
	if e.Verif == "" {
		wd, _ := os.Getwd()
		e.Verif = wd
	}
	e.Seed = 1
	if s := os.Getenv("VERIF_SEED"); s != "" {
		if n, err := strconv.ParseInt(s, 10, 64); err == nil {
			e.Seed = n
		}
	}
	base := os.Getenv("VERIF_TMP")
	if base == "" {
		base = os.TempDir()
	}
	dir, err := os.MkdirTemp(base, fmt.Sprintf("verif-%s-", prop))
	if err != nil {
		return nil, err
	}
	e.Scratch = dir
	e.GoCache = filepath.Join(dir, "gocache")
	baseCache := filepath.Join(e.Verif, ".cache", "go-build-base")
	if st, err := os.Stat(baseCache); err == nil && st.IsDir() {
		if out, err := exec.Command("cp", "-al", baseCache, e.GoCache).CombinedOutput(); err != nil {
			os.RemoveAll(e.GoCache)
			_ = out
		}
	}
	os.MkdirAll(e.GoCache, 0o755)
	e.Keep = os.Getenv("VERIF_KEEP") != ""
	return e, nil
}

// Cleanup removes the scratch directory.
func (e *Env) Cleanup() {
	if e.Keep {
		fmt.Fprintln(os.Stderr, "scratch kept at", e.Scratch)
		return
	}
	// go build cache files are read-only in places
	filepath.Walk(e.Scratch, func(p string, info os.FileInfo, err error) error {
		if err == nil && info.IsDir() {
			os.Chmod(p, 0o755)
		}
		return nil
	})
	os.RemoveAll(e.Scratch)
}

// GoEnv is the environment for every go command.
func (e *Env) GoEnv(extra ...string) []string {
	env := []string{
		"PATH=" + os.Getenv("PATH"),
		"HOME=" + os.Getenv("HOME"),
		"GOFLAGS=-mod=mod",
		"GOPROXY=off",
		"GOSUMDB=off",
		"GOTOOLCHAIN=local",
		"GOCACHE=" + e.GoCache,
		"GONOSUMDB=*",
		"GONOSUMCHECK=1",
		"TMPDIR=" + filepath.Join(e.Scratch, "tmp"),
	}
	os.MkdirAll(filepath.Join(e.Scratch, "tmp"), 0o755)
	if v := os.Getenv("GOMODCACHE"); v != "" {
		env = append(env, "GOMODCACHE="+v)
	}
	if v := os.Getenv("GOPATH"); v != "" {
		env = append(env, "GOPATH="+v)
	}
	if d := os.Getenv("VERIF_COVER_ALL"); d != "" {
		env = append(env, "GOCOVERDIR="+d)
	}
	return append(env, extra...)
}

// BuildCLI builds the goverter CLI from the repository working tree.
// variant: plain | race | cover
func (e *Env) BuildCLI(variant string) (string, error) {
	e.mu.Lock()
	defer e.mu.Unlock()
	if b, ok := e.bins[variant]; ok {
		return b, nil
	}
	bdir := filepath.Join(e.Scratch, "bin")
	os.MkdirAll(bdir, 0o755)
	modfile := filepath.Join(bdir, "goverter.mod")
	for _, n := range []struct{ from, to string }{{"go.mod", modfile}, {"go.sum", filepath.Join(bdir, "goverter.sum")}} {
		b, err := os.ReadFile(filepath.Join(e.Repo, n.from))
		if err != nil {
			return "", err
		}
		if err := os.WriteFile(n.to, b, 0o644); err != nil {
			return "", err
		}
	}
	out := filepath.Join(bdir, "goverter-"+variant)
	args := []string{"build", "-modfile=" + modfile, "-o", out}
	if os.Getenv("VERIF_COVER_ALL") != "" && variant == "plain" {
		// development aid: every CLI run of every check feeds one coverage directory
		args = append(args, "-cover", "-coverpkg=github.com/jmattheis/goverter/...")
	}
	switch variant {
	case "race":
		args = append(args, "-race")
	case "cover":
		args = append(args, "-cover", "-coverpkg=github.com/jmattheis/goverter/...")
	}
	args = append(args, "./cmd/goverter")
	cmd := exec.Command("go", args...)
	cmd.Dir = e.Repo
	cmd.Env = e.GoEnv()
	if b, err := cmd.CombinedOutput(); err != nil {
		return "", fmt.Errorf("building goverter (%s) from %s failed: %v\n%s", variant, e.Repo, err, b)
	}
	e.bins[variant] = out
	return out, nil
}

// BuildHelper builds a helper program from /verif/helpers/<name> that imports goverter
// through a replace directive pointing at the repository working tree.
func (e *Env) BuildHelper(name string) (string, error) {
	e.mu.Lock()
	defer e.mu.Unlock()
	if b, ok := e.bins["helper:"+name]; ok {
		return b, nil
	}
	src := filepath.Join(e.Verif, "helpers", name)
	dst := filepath.Join(e.Scratch, "helper-"+name)
	if out, err := exec.Command("cp", "-r", src, dst).CombinedOutput(); err != nil {
		return "", fmt.Errorf("copy helper: %v %s", err, out)
	}
	repoMod, err := os.ReadFile(filepath.Join(e.Repo, "go.mod"))
	if err != nil {
		return "", err
	}
	// reuse the repository's require blocks so that every dependency version is pinned identically
	var req []string
	inBlock := false
	for _, l := range strings.Split(string(repoMod), "\n") {
		t := strings.TrimSpace(l)
		switch {
		case strings.HasPrefix(t, "require ("):
			inBlock = true
		case inBlock && t == ")":
			inBlock = false
		case inBlock && t != "":
			req = append(req, "\t"+strings.TrimSuffix(strings.TrimSpace(strings.Split(t, "//")[0]), " "))
		case strings.HasPrefix(t, "require "):
			req = append(req, "\t"+strings.TrimPrefix(t, "require "))
		}
	}
	mod := "module vhelper\n\ngo 1.22.0\n\nrequire (\n\tgithub.com/jmattheis/goverter v0.0.0\n" + strings.Join(req, "\n") + "\n)\n\nreplace github.com/jmattheis/goverter => " + e.Repo + "\n"
	if err := os.WriteFile(filepath.Join(dst, "go.mod"), []byte(mod), 0o644); err != nil {
		return "", err
	}
	sum, _ := os.ReadFile(filepath.Join(e.Repo, "go.sum"))
	os.WriteFile(filepath.Join(dst, "go.sum"), sum, 0o644)
	out := filepath.Join(e.Scratch, "bin", "helper-"+name)
	os.MkdirAll(filepath.Dir(out), 0o755)
	cmd := exec.Command("go", "build", "-o", out, ".")
	cmd.Dir = dst
	cmd.Env = e.GoEnv()
	if b, err := cmd.CombinedOutput(); err != nil {
		return "", fmt.Errorf("building helper %s failed: %v\n%s", name, err, b)
	}
	e.bins["helper:"+name] = out
	return out, nil
}

// CLIResult is what was observed at the process boundary.
type CLIResult struct {
	Args     []string
	Dir      string
	Exit     int
	Signal   string
	Stdout   string
	Stderr   string
	Dur      time.Duration
	TimedOut bool
	Dump     string // goroutine dump after SIGQUIT on timeout
}

// RunOpts for RunCmd.
type RunOpts struct {
	Dir     string
	Env     []string
	Timeout time.Duration
	Stdin   string
}

// RunCmd runs a child process with a watchdog; on timeout it sends SIGQUIT first to capture a goroutine dump.
func RunCmd(bin string, args []string, o RunOpts) CLIResult {
	if o.Timeout == 0 {
		o.Timeout = 60 * time.Second
	}
	res := CLIResult{Args: append([]string{bin}, args...), Dir: o.Dir}
	ctx, cancel := context.WithCancel(context.Background())
	defer cancel()
	cmd := exec.CommandContext(ctx, bin, args...)
	cmd.Dir = o.Dir
	cmd.Env = o.Env
	cmd.SysProcAttr = &syscall.SysProcAttr{Setpgid: true}
	var so, se bytes.Buffer
	cmd.Stdout, cmd.Stderr = &so, &se
	if o.Stdin != "" {
		cmd.Stdin = strings.NewReader(o.Stdin)
	}
	start := time.Now()
	if err := cmd.Start(); err != nil {
		res.Exit = -1
		res.Stderr = "start: " + err.Error()
		return res
	}
	done := make(chan error, 1)
	go func() { done <- cmd.Wait() }()
	var err error
	select {
	case err = <-done:
	case <-time.After(o.Timeout):
		res.TimedOut = true
		syscall.Kill(-cmd.Process.Pid, syscall.SIGQUIT)
		select {
		case err = <-done:
		case <-time.After(5 * time.Second):
			syscall.Kill(-cmd.Process.Pid, syscall.SIGKILL)
			err = <-done
		}
	}
	res.Dur = time.Since(start)
	res.Stdout, res.Stderr = so.String(), se.String()
	if res.TimedOut {
		res.Dump = res.Stderr
	}
	if err != nil {
		if ee, ok := err.(*exec.ExitError); ok {
			ws := ee.Sys().(syscall.WaitStatus)
			if ws.Signaled() {
				res.Signal = ws.Signal().String()
				res.Exit = 128 + int(ws.Signal())
			} else {
				res.Exit = ws.ExitStatus()
			}
		} else {
			res.Exit = -1
			res.Stderr += "\nwait: " + err.Error()
		}
	}
	return res
}

// Parallel runs f(i) for i in [0,n) on all cores.
func Parallel(n int, f func(i int)) {
	workers := runtime.NumCPU()
	if w := os.Getenv("VERIF_WORKERS"); w != "" {
		if k, err := strconv.Atoi(w); err == nil && k > 0 {
			workers = k
		}
	}
	if workers > n {
		workers = n
	}
	var wg sync.WaitGroup
	ch := make(chan int)
	for w := 0; w < workers; w++ {
		wg.Add(1)
		go func() {
			defer wg.Done()
			for i := range ch {
				f(i)
			}
		}()
	}
	for i := 0; i < n; i++ {
		ch <- i
	}
	close(ch)
	wg.Wait()
}

package core

import (
	"crypto/sha1"
	"fmt"
	"os"
	"path/filepath"
	"regexp"
	"sort"
	"strings"
	"time"
)

// FSEvent is one file-system mutating syscall observed by strace.
type FSEvent struct {
	Op    string
	Path  string
	Path2 string
	Flags string
	Mode  string
	Ret   string
	Fail  bool
	Pid   string
}

func (e FSEvent) String() string {
	s := e.Op + " " + e.Path
	if e.Path2 != "" {
		s += " -> " + e.Path2
	}
	if e.Flags != "" {
		s += " " + e.Flags
	}
	if e.Mode != "" {
		s += " mode=" + e.Mode
	}
	return s + " = " + e.Ret
}

const straceSet = "openat,open,creat,mkdir,mkdirat,rename,renameat,renameat2,unlink,unlinkat,rmdir,chmod,fchmod,fchmodat,truncate,ftruncate,link,linkat,symlink,symlinkat,write,pwrite64,close,chdir"

var (
	reCall   = regexp.MustCompile(`^(\w+)\((.*)\)\s+= (-?\d+|\?)(.*)$`)
	reQuoted = regexp.MustCompile(`"((?:[^"\\]|\\.)*)"`)
	reDirfd  = regexp.MustCompile(`^(AT_FDCWD|\d+)<([^>]*)>`)
	reFdPath = regexp.MustCompile(`^(\d+)<([^>]*)>`)
)

// RunStraced runs the CLI under strace -ff and returns the mutating file-system events below root.
// inject are extra strace arguments (fault injection).
func RunStraced(bin string, args []string, o RunOpts, root string, inject []string) (CLIResult, []FSEvent, error) {
	logDir, err := os.MkdirTemp(filepath.Dir(root), "strace-")
	if err != nil {
		return CLIResult{}, nil, err
	}
	defer os.RemoveAll(logDir)
	sargs := []string{"-y", "-ff", "-o", filepath.Join(logDir, "t"), "-s", "64", "-e", "trace=" + straceSet}
	sargs = append(sargs, inject...)
	sargs = append(sargs, bin)
	sargs = append(sargs, args...)
	if o.Timeout == 0 {
		o.Timeout = 120 * time.Second
	}
	res := RunCmd("strace", sargs, o)
	if strings.Contains(res.Stderr, "strace: ptrace(") || strings.Contains(res.Stderr, "strace: attach:") {
		// the tracer itself failed (seen under heavy load: PTRACE_LISTEN: Input/output error): that is no observation
		// of the traced program. The caller decides what an error means (inconclusive), never a verdict.
		return res, nil, fmt.Errorf("strace failed: %s", firstLineOf(res.Stderr, "strace: "))
	}
	res.Args = append([]string{bin}, args...)
	files, _ := filepath.Glob(filepath.Join(logDir, "t.*"))
	sort.Strings(files)
	var events []FSEvent
	cwd := o.Dir
	for _, f := range files {
		b, err := os.ReadFile(f)
		if err != nil {
			continue
		}
		pid := strings.TrimPrefix(filepath.Base(f), "t.")
		fds := map[string]string{} // fd -> path (only for files below root opened for writing)
		pcwd := cwd
		for _, line := range strings.Split(string(b), "\n") {
			m := reCall.FindStringSubmatch(line)
			if m == nil {
				continue
			}
			op, argstr, ret := m[1], m[2], m[3]
			fail := strings.HasPrefix(ret, "-")
			paths := reQuoted.FindAllStringSubmatch(argstr, -1)
			// with -y the directory fd of *at calls (and AT_FDCWD) is annotated with its path
			base := pcwd
			if mm := reDirfd.FindStringSubmatch(argstr); mm != nil {
				base = mm[2]
			}
			abs := func(p string) string {
				if p == "" {
					return p
				}
				if !filepath.IsAbs(p) {
					p = filepath.Join(base, p)
				}
				return filepath.Clean(p)
			}
			under := func(p string) bool { return p == root || strings.HasPrefix(p, root+"/") }
			switch op {
			case "chdir":
				if len(paths) > 0 && !fail {
					pcwd = abs(paths[0][1])
				}
			case "openat", "open", "creat":
				if len(paths) == 0 {
					continue
				}
				p := abs(paths[0][1])
				if !under(p) {
					continue
				}
				rest := argstr[strings.Index(argstr, paths[0][0])+len(paths[0][0]):]
				parts := strings.Split(strings.TrimPrefix(rest, ", "), ", ")
				flags := ""
				mode := ""
				if len(parts) > 0 {
					flags = parts[0]
				}
				if len(parts) > 1 {
					mode = parts[1]
				}
				if op == "creat" {
					mode, flags = flags, "O_CREAT|O_WRONLY|O_TRUNC"
				}
				if strings.Contains(flags, "O_WRONLY") || strings.Contains(flags, "O_RDWR") || strings.Contains(flags, "O_CREAT") || strings.Contains(flags, "O_TRUNC") || strings.Contains(flags, "O_APPEND") {
					events = append(events, FSEvent{Op: op, Path: p, Flags: flags, Mode: mode, Ret: ret, Fail: fail, Pid: pid})
					if !fail {
						fds[ret] = p
					}
				}
			case "close":
				fd := strings.TrimSpace(argstr)
				delete(fds, fd)
			case "write", "pwrite64", "ftruncate", "fchmod":
				fd := strings.SplitN(argstr, ",", 2)[0]
				p, ok := fds[strings.TrimSpace(fd)]
				if mm := reFdPath.FindStringSubmatch(strings.TrimSpace(fd)); mm != nil {
					p, ok = filepath.Clean(mm[2]), under(filepath.Clean(mm[2]))
				}
				if ok {
					ev := FSEvent{Op: op, Path: p, Ret: ret, Fail: fail, Pid: pid}
					if op == "fchmod" {
						ev.Mode = strings.TrimSpace(strings.SplitN(argstr, ",", 2)[1])
					}
					events = append(events, ev)
				}
			case "mkdir", "mkdirat", "unlink", "unlinkat", "rmdir", "chmod", "fchmodat", "truncate":
				if len(paths) == 0 {
					continue
				}
				p := abs(paths[0][1])
				if !under(p) {
					continue
				}
				mode := ""
				if op == "mkdir" || op == "mkdirat" || op == "chmod" || op == "fchmodat" {
					parts := strings.Split(argstr, ", ")
					mode = parts[len(parts)-1]
					if op == "fchmodat" && len(parts) >= 3 {
						mode = parts[2]
					}
				}
				// mkdir of an existing directory (EEXIST) changes nothing
				if fail && strings.Contains(m[4], "EEXIST") {
					continue
				}
				events = append(events, FSEvent{Op: op, Path: p, Mode: mode, Ret: ret, Fail: fail, Pid: pid})
			case "rename", "renameat", "renameat2", "link", "linkat", "symlink", "symlinkat":
				if len(paths) < 2 {
					continue
				}
				p1, p2 := abs(paths[0][1]), abs(paths[1][1])
				if under(p1) || under(p2) {
					events = append(events, FSEvent{Op: op, Path: p1, Path2: p2, Ret: ret, Fail: fail, Pid: pid})
				}
			}
		}
	}
	return res, events, nil
}

// TreeState is a digest of a directory tree: path -> "mode size mtime sha1".
type TreeState map[string]string

// SnapshotTree digests all files and directories below dir.
func SnapshotTree(dir string) TreeState {
	st := TreeState{}
	filepath.Walk(dir, func(p string, info os.FileInfo, err error) error {
		if err != nil {
			return nil
		}
		rel, _ := filepath.Rel(dir, p)
		if info.IsDir() {
			st[rel+"/"] = fmt.Sprintf("dir %o", info.Mode().Perm())
			return nil
		}
		b, _ := os.ReadFile(p)
		st[rel] = fmt.Sprintf("%o %d %d %x", info.Mode().Perm(), info.Size(), info.ModTime().UnixNano(), sha1.Sum(b))
		return nil
	})
	return st
}

// Diff lists the paths that differ between two tree states.
func (a TreeState) Diff(b TreeState) []string {
	var out []string
	for p, v := range a {
		if w, ok := b[p]; !ok {
			out = append(out, "removed "+p)
		} else if v != w {
			out = append(out, "changed "+p)
		}
	}
	for p := range b {
		if _, ok := a[p]; !ok {
			out = append(out, "created "+p)
		}
	}
	sort.Strings(out)
	return out
}

func firstLineOf(text, prefix string) string {
	for _, l := range strings.Split(text, "\n") {
		if strings.HasPrefix(l, prefix) {
			return l
		}
	}
	return ""
}

// Package judge holds the independent models ("judges") of documented goverter behaviour.
package judge

import (
	"strings"

	"verif/internal/pgen"
)

// Cfg are the settings that change convertibility.
type Cfg struct {
	SkipCopy         bool
	UseZero          bool
	IgnoreMissing    bool
	IgnoreUnexported bool
	MatchIgnoreCase  bool
	EnumOff          bool
	EnumUnknown      string
	// OutPkg is the package the code is emitted into (accessibility).
	OutPkg *pgen.Package
	// SigPkg is the package in which the converter signature is written: unnamed struct types that are not nested in a
	// named declaration belong to it.
	SigPkg *pgen.Package
}

// Result of the convertibility judgement.
type Result struct {
	OK      bool
	Classes map[string]bool // classes of faults found anywhere in the pair
	Depth   int             // how deep the judgement descended
}

type pairKey struct{ s, t *pgen.Decl }

// Convertible implements the documented rule list (docs/explanation/generation.md + property C03).
func Convertible(s, t *pgen.Type, cfg Cfg) Result {
	r := Result{OK: true, Classes: map[string]bool{}}
	j(s, t, cfg, map[pairKey]bool{}, &r, 0, cfg.SigPkg, cfg.SigPkg)
	return r
}

func fail(r *Result, class string) {
	r.OK = false
	r.Classes[class] = true
}

func isEnum(t *pgen.Type) bool {
	return t.K == pgen.KNamed && t.Decl.Under.K == pgen.KBasic && len(t.Decl.Consts) > 0 && enumKind(t.Decl.Under.Basic)
}

func enumKind(b string) bool {
	return b != "bool" && !strings.HasPrefix(b, "complex")
}

// Identical is Go type identity on the IR.
func Identical(a, b *pgen.Type) bool {
	if a.K != b.K {
		return false
	}
	switch a.K {
	case pgen.KBasic:
		return canon(a.Basic) == canon(b.Basic)
	case pgen.KNamed:
		if a.Decl != b.Decl || len(a.Args) != len(b.Args) {
			return false
		}
		for i := range a.Args {
			if !Identical(a.Args[i], b.Args[i]) {
				return false
			}
		}
		return true
	case pgen.KPtr, pgen.KSlice:
		return Identical(a.Elem, b.Elem)
	case pgen.KArray:
		return a.Len == b.Len && Identical(a.Elem, b.Elem)
	case pgen.KMap:
		return Identical(a.Key, b.Key) && Identical(a.Elem, b.Elem)
	case pgen.KStruct:
		if len(a.Fields) != len(b.Fields) {
			return false
		}
		for i := range a.Fields {
			if a.Fields[i].Name != b.Fields[i].Name || a.Fields[i].Embedded != b.Fields[i].Embedded || a.Fields[i].Tag != b.Fields[i].Tag || !Identical(a.Fields[i].T, b.Fields[i].T) {
				return false
			}
		}
		return true
	default:
		return a.Raw == b.Raw
	}
}

func canon(b string) string {
	switch b {
	case "byte":
		return "uint8"
	case "rune":
		return "int32"
	}
	return b
}

func exported(name string) bool {
	return name != "" && name[0] >= 'A' && name[0] <= 'Z'
}

func j(s, t *pgen.Type, cfg Cfg, seen map[pairKey]bool, r *Result, depth int, sp, tp *pgen.Package) {
	// unnamed struct types belong to the package of the nearest enclosing named declaration
	if s.K == pgen.KNamed {
		sp = s.Decl.Pkg
	}
	if t.K == pgen.KNamed {
		tp = t.Decl.Pkg
	}
	if depth > r.Depth {
		r.Depth = depth
	}
	// 3. skipCopySameType
	if cfg.SkipCopy && Identical(s, t) {
		return
	}
	// recursion (coinductive)
	if s.K == pgen.KNamed && t.K == pgen.KNamed {
		k := pairKey{s.Decl, t.Decl}
		if seen[k] {
			return
		}
		seen[k] = true
		defer delete(seen, k)
	}
	// enums
	if !cfg.EnumOff && isEnum(s) && isEnum(t) {
		tm := map[string]bool{}
		for _, c := range t.Decl.Consts {
			tm[c.Name] = true
		}
		for _, c := range s.Decl.Consts {
			if !tm[c.Name] {
				fail(r, "enum")
			}
		}
		if cfg.EnumUnknown == "" {
			fail(r, "enum")
		} else if !strings.HasPrefix(cfg.EnumUnknown, "@") && !tm[cfg.EnumUnknown] {
			fail(r, "enum")
		}
		return
	}
	su, tu := s.Under(), t.Under()
	switch {
	case su.K == pgen.KPtr && tu.K == pgen.KPtr:
		j(su.Elem, tu.Elem, cfg, seen, r, depth+1, sp, tp)
	case su.K != pgen.KPtr && tu.K == pgen.KPtr:
		j(s, tu.Elem, cfg, seen, r, depth+1, sp, tp)
	case su.K == pgen.KPtr && tu.K != pgen.KPtr:
		if !cfg.UseZero {
			fail(r, "pointer-mismatch")
			return
		}
		j(su.Elem, t, cfg, seen, r, depth+1, sp, tp)
	case su.K == pgen.KBasic && tu.K == pgen.KBasic:
		if canon(su.Basic) != canon(tu.Basic) {
			fail(r, "type-mismatch")
		}
	case su.K == pgen.KStruct && tu.K == pgen.KStruct:
		jStruct(s, t, su, tu, cfg, seen, r, depth, sp, tp)
	case (su.K == pgen.KSlice || su.K == pgen.KArray) && tu.K == pgen.KSlice:
		j(su.Elem, tu.Elem, cfg, seen, r, depth+1, sp, tp)
	case su.K == pgen.KMap && tu.K == pgen.KMap:
		j(su.Key, tu.Key, cfg, seen, r, depth+1, sp, tp)
		j(su.Elem, tu.Elem, cfg, seen, r, depth+1, sp, tp)
	default:
		fail(r, "type-mismatch")
	}
}

func jStruct(s, t, su, tu *pgen.Type, cfg Cfg, seen map[pairKey]bool, r *Result, depth int, sp, tp *pgen.Package) {
	for _, tf := range tu.Fields {
		if !exported(tf.Name) && cfg.IgnoreUnexported {
			continue
		}
		if !exported(tf.Name) && !(tp != nil && cfg.OutPkg != nil && tp == cfg.OutPkg) {
			fail(r, "unexported-target")
			continue
		}
		var exact *pgen.Field
		var loose []*pgen.Field
		for _, sf := range su.Fields {
			if sf.Name == tf.Name {
				exact = sf
				break
			}
			if cfg.MatchIgnoreCase && strings.EqualFold(sf.Name, tf.Name) {
				loose = append(loose, sf)
			}
		}
		var sf *pgen.Field
		switch {
		case exact != nil:
			sf = exact
		case len(loose) == 1:
			sf = loose[0]
		case len(loose) > 1:
			fail(r, "ambiguous-field")
			continue
		default:
			if !cfg.IgnoreMissing {
				fail(r, "no-source-field")
			}
			continue
		}
		if !exported(sf.Name) && !(sp != nil && cfg.OutPkg != nil && sp == cfg.OutPkg) {
			fail(r, "unexported-source")
			continue
		}
		j(sf.T, tf.T, cfg, seen, r, depth+1, sp, tp)
	}
}

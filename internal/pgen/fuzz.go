package pgen

import (
	"fmt"
	"math/rand"
	"strings"
)

// RawCase builds a case from literal files (package dir -> file -> content).
func RawCase(name string, files map[string]string, args []string, patterns []string) *Case {
	c := &Case{Name: name, Root: "vcase/" + name, Args: args, Patterns: patterns}
	byDir := map[string]*Package{}
	for p, body := range files {
		dir := "."
		file := p
		if i := strings.LastIndex(p, "/"); i >= 0 {
			dir, file = p[:i], p[i+1:]
		}
		pk := byDir[dir]
		if pk == nil {
			pk = &Package{Path: dir, Name: dir, Files: map[string]string{}}
			byDir[dir] = pk
			c.Pkgs = append(c.Pkgs, pk)
		}
		pk.Files[file] = body
	}
	return c
}

// exotic leaves of the Go type grammar for C13
var exoticLeaves = []string{
	"uintptr", "unsafe.Pointer", "chan int", "<-chan int", "chan<- string", "func(...int) error", "func()", "error",
	"interface{ M() }", "interface{ error; M() }", "any", "G[int]", "G[*R]", "R", "*R", "A", "B", "[0]int", "[0]R",
	"struct{ _ int; V int }", "struct{ Inner; W int }", "struct{ *Inner }", "complex64", "NF", "NC", "AL", "struct{ V int `json:\"v\"` }",
	"int", "string", "[]byte", "map[string]any", "Enum", "*Enum", "map[Enum]Enum", "fmt.Stringer", "time.Time", "*time.Time", "[]error",
	"map[string]error", "func(R) (R, error)", "chan R", "struct{}", "map[string]struct{}", "NI", "**int", "***R", "[]*[]*int", "CmpIface",
	"struct{ error }", "struct{ E error }", "sync.Mutex", "*sync.Mutex", "atomic.Int64", "[2][2]int", "map[[2]int][]R",
	// named types that refer to themselves without a struct in between
	"SL", "SL2", "SM", "SM2", "SP", "SP2", "SA", "SLP", "SLP2", "SF", "SC", "SI", "MA", "MB", "GR[int]", "struct{ L SL; M SM }", "SK", "SK2", "SKA",
	"struct{ A Inner; B Inner }", "struct{ A R; B R; C *R }", "struct{ A G[int]; B G[int] }",
}

const exoticPrelude = `
type G[T any] struct{ V T; P *T; L []T }
type R struct { Next *R; Kids []R; M map[string]R; V int }
type A struct { B *B; V int }
type B struct { A []A; W string }
type Inner struct { X int; y int }
type NF func(int) string
type NC chan int
type AL = int
type NI int
type Enum int
const ( EnumA Enum = iota; EnumB; EnumC )
type CmpIface interface{ comparable }
type SL []SL
type SL2 []SL2
type SM map[string]SM
type SM2 map[string]SM2
type SP *SP
type SP2 *SP2
type SA [2]*SA
type SLP []*SLP
type SLP2 []*SLP2
type SF func() SF
type SC chan SC
type SI interface{ M() SI }
type MA []MB
type MB map[string]MA
type GR[T any] []GR[T]
type SK map[*SK]bool
type SK2 map[*SK2]bool
type SKA map[[1]*SKA]*SKA
`

func fixExotic(t string) string {
	if t == "CmpIface" {
		return "interface{ M() int }" // constraint interfaces cannot be used as types
	}
	return t
}

// wrapExotic applies a random constructor.
func wrapExotic(r *rand.Rand, t string) string {
	switch r.Intn(9) {
	case 0:
		return "*" + t
	case 1:
		return "[]" + t
	case 2:
		return "[2]" + t
	case 3:
		return "map[string]" + t
	case 4:
		return "struct{ F " + t + " }"
	case 5:
		return "struct{ F " + t + "; G int }"
	case 6:
		return "G[" + t + "]"
	case 7:
		return "func() " + t
	default:
		return t
	}
}

var fuzzFlags = []string{"skipCopySameType", "useZeroValueOnPointerInconsistency", "ignoreMissing", "ignoreUnexported", "matchIgnoreCase",
	"wrapErrors", "enum:unknown @ignore", "enum:unknown @error", "enum:unknown @panic", "enum no", "useUnderlyingTypeMethods",
	"update:ignoreZeroValueField", "update:ignoreZeroValueField:nillable", "default:update", "output:format function", "wrapErrorsUsing vcase/errs"}

// FuzzTypeCase: one converter over exotic types.
func FuzzTypeCase(r *rand.Rand, name string) *Case {
	leaf := func() string { return fixExotic(exoticLeaves[r.Intn(len(exoticLeaves))]) }
	s := leaf()
	for d := r.Intn(3); d > 0; d-- {
		s = wrapExotic(r, s)
	}
	var t string
	switch r.Intn(5) {
	case 0, 1:
		t = s // identical
	case 2:
		t = "*" + s
	case 3:
		// swap the leaf
		t = leaf()
		for d := r.Intn(2); d > 0; d-- {
			t = wrapExotic(r, t)
		}
	default:
		t = wrapExotic(r, s)
	}
	var lines []string
	for _, f := range fuzzFlags {
		if r.Intn(6) == 0 {
			lines = append(lines, "// goverter:"+f)
		}
	}
	var sb strings.Builder
	sb.WriteString("package p\n\nimport (\n\t\"fmt\"\n\t\"sync\"\n\t\"sync/atomic\"\n\t\"time\"\n\t\"unsafe\"\n)\n\nvar _ fmt.Stringer\nvar _ sync.Mutex\nvar _ atomic.Int64\nvar _ time.Time\nvar _ unsafe.Pointer\n")
	sb.WriteString(exoticPrelude)
	method := fmt.Sprintf("M(source %s) %s", s, t)
	mlines := ""
	switch r.Intn(8) {
	case 0:
		method = fmt.Sprintf("M(source %s) (%s, error)", s, t)
	case 1:
		// update signature
		method = fmt.Sprintf("M(source %s, target %s)", s, t)
		mlines = "\t// goverter:update target\n"
	case 2:
		method = fmt.Sprintf("M(ctx %s, source %s) %s", leaf(), s, t)
		mlines = "\t// goverter:context ctx\n"
	}
	pre := ""
	if len(lines) > 0 {
		pre = strings.Join(lines, "\n") + "\n"
	}
	vpre := ""
	if fl := filterFormat(lines); len(fl) > 0 {
		vpre = strings.Join(fl, "\n") + "\n"
	}
	kind := r.Intn(10)
	switch {
	case kind == 0:
		// generic converter interface
		fmt.Fprintf(&sb, "\n// goverter:converter\n%stype Converter[T any] interface {\n%s\t%s\n\tN(T) T\n}\n", pre, mlines, method)
	case kind == 1:
		// variables block
		fn := strings.Replace(method, "M(", "func(", 1)
		fmt.Fprintf(&sb, "\n// goverter:variables\n%svar (\n%s\tM %s\n)\n", vpre, mlines, fn)
	default:
		fmt.Fprintf(&sb, "\n// goverter:converter\n%stype Converter interface {\n%s\t%s\n}\n", pre, mlines, method)
	}
	files := map[string]string{"p/input.go": sb.String()}
	c := RawCase(name, files, nil, []string{"./p"})
	c.Feature("fuzz", "type")
	c.Note = s + " -> " + t
	return c
}

func filterFormat(lines []string) []string {
	var out []string
	for _, l := range lines {
		if !strings.Contains(l, "output:format") {
			out = append(out, l)
		}
	}
	return out
}

// directive grammar
var settingKeys = []string{"converter", "variables", "name", "output:raw", "output:file", "output:format", "output:package", "struct:comment",
	"enum:exclude", "extend", "wrapErrors", "wrapErrorsUsing", "ignoreUnexported", "update:ignoreZeroValueField", "update:ignoreZeroValueField:basic",
	"update:ignoreZeroValueField:struct", "update:ignoreZeroValueField:nillable", "default:update", "matchIgnoreCase", "ignoreMissing", "skipCopySameType",
	"useZeroValueOnPointerInconsistency", "useUnderlyingTypeMethods", "enum", "arg:context:regex", "enum:unknown", "map", "ignore", "update", "context",
	"enum:map", "enum:transform", "autoMap", "default"}

var settingValues = []string{"", " ", "yes", "no", "maybe", "yes yes", ".", "..", "...", "A", "A B", "A B C", "A.B", ".A", "A.", "A..B", "|", "A |", "| F", "A B | F", "A B | ", "A | p:F",
	"[", "(", "\\", "*", ".*", "^$", "(?P<x>", "@error", "@panic", "@ignore", "@bogus", "@", "regex", "regex [ x", "regex (.*) $1", "regex (.*) $9", "unknownT x",
	"F", "p:F", ":F", "p:", ":", "./x.go", "../x.go", "@cwd/x.go", "@cwd/", "@cwd", "x", "x:y", ":y", "x:", "x:y:z", "struct", "function", "assign-variable", "Function",
	"\t", "\tyes", "yes\t", "  yes  ", "ÿ", "\x01", "a\x00b", "Source", "Target", "Name", "Nested.Name", "Ptr.Name", "source", "target", "nil", "_", "func", "type",
	"vcase/none:F", "strconv:Itoa", "fmt:Sprint", "strconv:.*", ".*", "Conv.*", "github.com/x/y:Z", "-1", "0", "9Name", "Name-1", "Name Name"}

var pathValues = []string{".", "..", "...", "Nested", "Nested.Name", "Ptr", "Ptr.Name", ".Name", "Name.", "Nested..Name", "Name Name", "Nested.Name Name", ". Name", ". Nested", "Nested Nested | Custom",
	"Nested.Name Name | F", "Name | F", "Name Name | FE", "Name | WithCtx", "Age Name", "Name Age", "list Name", "Kind", "Kind Kind", "Ptr Nested", "Nested Ptr", "Ptr.Name Name", "Ptr.Name.X Name", "Name.X Name",
	"PS", "PP", "PL", "PM", "Fn", "If", "Arr", "PS Name", "PP.Name Name", "PL Name", "PM.Name Name", "Fn Nested", "Fn.Name Name", "If Name", "If.Name Name", "Arr.Name Name", "PS.X Name",
	"Extra", "Name Extra", ". Extra | New", "Extra | New", "Nested.Name Extra", "nested", "NAME", "name Name", "Nested.name Name", "", " ", "Name |", "| F", "Name Extra | p:F", "Name Extra | :F", "Name Extra | F F"}

var keyValues = map[string][]string{
	"map": pathValues, "ignore": pathValues, "autoMap": pathValues,
	"default":           {"New", "F", "FE", "p:New", ":New", "New New", "", "WithCtx", "Custom", "vcase/none:New", "strconv:Itoa", "New |"},
	"extend":            {"F", "FE", "Custom", "Custom Custom", "F.*", ".*", "(", "strconv:.*", "strconv:Itoa", "p:F", "vcase/none:.*", ":", "WithCtx", "New"},
	"enum:map":          {"SKindA TKindA", "SKindA @error", "SKindA @ignore", "SKindA @panic", "SKindA", "SKindA TKindA TKindB", "Nope TKindA", "SKindA Nope", "@error SKindA", "SKindA @"},
	"enum:transform":    {"regex", "regex SKind(.*) TKind$1", "regex ( x", "regex (.*)", "regex (.*) $2", "bogus x", "", "regex  ", "regex SKind(.) TKind$1 extra"},
	"enum:unknown":      {"@error", "@panic", "@ignore", "TKindA", "Nope", "@nope", "", "TKindA TKindB"},
	"enum:exclude":      {"p:SKind", ":SKind", "SKind", ".*:.*", "(:x", "p:(", "", "vcase/f:.*"},
	"update":            {"source", "target", "nope", "", "source target"},
	"context":           {"source", "c", "nope", "", "a b"},
	"output:file":       {"./x.go", "../x.go", "@cwd/x.go", "@cwd/", "@cwd", "x", "", "a b", "./generated", "./", "."},
	"output:package":    {"x", "x:y", ":y", "x:", "x:y:z", "", "vcase/other", "vcase/other:9x", ":func", "a b"},
	"output:raw":        {"func X() {}", "func (", "}", "var x = ", "import \"os\"", "// c", ""},
	"name":              {"X", "9x", "func", "", "A B", "Ünï", "a-b"},
	"arg:context:regex": {"^c$", "(", ".*", "", "a b", "source"},
	"wrapErrorsUsing":   {"vcase/errs", "vcase/none", "", "fmt", "a b", "./errs"},
}

func fuzzDirective(r *rand.Rand) string {
	key := settingKeys[r.Intn(len(settingKeys))]
	if pool, ok := keyValues[key]; ok && r.Intn(3) != 0 {
		val := pool[r.Intn(len(pool))]
		if val == "" {
			return key
		}
		return key + " " + val
	}
	switch r.Intn(12) {
	case 0:
		key = key + "x"
	case 1:
		key = strings.ToUpper(key)
	case 2:
		key = ""
	case 3:
		key = key + ":"
	}
	val := settingValues[r.Intn(len(settingValues))]
	if r.Intn(40) == 0 {
		val = strings.Repeat("A.", 50000) + "B"
	}
	sep := " "
	switch r.Intn(10) {
	case 0:
		sep = "\t"
	case 1:
		sep = "  "
	case 2:
		sep = ""
	}
	if val == "" && r.Intn(2) == 0 {
		return key
	}
	return key + sep + val
}

const directiveBase = `
type Source struct { Name string; Age int; Nested NestedS; Ptr *NestedS; Kind SKind; list []int; PS *string; PP **NestedS; PL *[]int; PM *map[string]NestedS; Fn func() NestedS; If any; Arr [2]NestedS }
type NestedS struct { Name string }
type Target struct { Name string; Age int; Nested NestedT; Ptr *NestedT; Kind TKind; Extra string }
type NestedT struct { Name string }
type SKind int
const ( SKindA SKind = iota; SKindB )
type TKind string
const ( TKindA TKind = "a"; TKindB TKind = "b" )
func F(s string) string { return s }
func FE(s string) (string, error) { return s, nil }
func New() Target { return Target{} }
// goverter:context c
func WithCtx(s string, c int) string { return s }
`

// FuzzDirectiveCase: a valid converter with 1-3 fuzzed directive lines at random positions.
func FuzzDirectiveCase(r *rand.Rand, name string) *Case {
	var conv, meth, fn, vars []string
	var args []string
	n := 1 + r.Intn(3)
	pos := ""
	clean := func(d string) string {
		// a line comment cannot contain newlines; NUL makes the input invalid Go
		d = strings.ReplaceAll(d, "\n", " ")
		d = strings.ReplaceAll(d, "\x00", "")
		return d
	}
	for i := 0; i < n; i++ {
		d := fuzzDirective(r)
		switch r.Intn(6) {
		case 0:
			conv = append(conv, "// goverter:"+clean(d))
			pos += "C"
		case 1, 2:
			meth = append(meth, "\t// goverter:"+clean(d))
			pos += "M"
		case 3:
			args = append(args, "-g", strings.ReplaceAll(d, "\x00", ""))
			pos += "G"
		case 4:
			fn = append(fn, "// goverter:"+clean(d))
			pos += "F"
		default:
			vars = append(vars, "\t// goverter:"+clean(d))
			pos += "V"
		}
	}
	var sb strings.Builder
	sb.WriteString("package p\n" + directiveBase + "\n")
	sb.WriteString(strings.Join(fn, "\n") + "\nfunc Custom(s NestedS) NestedT { return NestedT{} }\n\n")
	base := []string{"// goverter:converter", "// goverter:extend Custom", "// goverter:enum:unknown @ignore"}
	sb.WriteString(strings.Join(append(base, conv...), "\n") + "\ntype Converter interface {\n\t// goverter:ignore Extra\n")
	sb.WriteString(strings.Join(meth, "\n"))
	if len(meth) > 0 {
		sb.WriteString("\n")
	}
	sb.WriteString("\tConvert(source Source) Target\n\t// goverter:enum:map SKindA TKindA\n\t// goverter:enum:map SKindB TKindB\n\tConvertKind(source SKind) TKind\n}\n")
	if len(vars) > 0 {
		sb.WriteString("\n// goverter:variables\n// goverter:enum:unknown @ignore\nvar (\n\t// goverter:ignore Extra Kind\n" + strings.Join(vars, "\n") + "\n\tConvertVar func(source Source) Target\n)\n")
	}
	c := RawCase(name, map[string]string{"p/input.go": sb.String()}, args, []string{"./p"})
	c.Feature("fuzz", "directive")
	c.Note = pos
	return c
}

var argvTokens = []string{"gen", "help", "version", "-h", "--help", "-g", "-global", "-cwd", "-build-tags", "-output-constraint", "./p", "./...", "./none", "", "-", "--", "-x", "--gen", "gen gen",
	"ignoreMissing", "skipCopySameType no", "bogus", "x y z", "/", ".", "..", "p", "vcase/argv/p", "github.com/none/none", "-g=ignoreMissing", "-cwd=.", "-cwd=/nonexistent", "-build-tags=", "-output-constraint=", "a,b", "!a", "&&", "\x01"}

// FuzzArgvCase: a valid package and a random argument vector.
func FuzzArgvCase(r *rand.Rand, name string) *Case {
	n := r.Intn(6)
	var argv []string
	for i := 0; i < n; i++ {
		argv = append(argv, argvTokens[r.Intn(len(argvTokens))])
	}
	src := "package p\n\n// goverter:converter\ntype Converter interface {\n\tConvert(source In) Out\n}\n\ntype In struct{ V int }\ntype Out struct{ V int }\n"
	c := RawCase(name, map[string]string{"p/input.go": src}, nil, nil)
	c.RawArgs = argv
	if c.RawArgs == nil {
		c.RawArgs = []string{}
	}
	c.Feature("fuzz", "argv")
	c.Note = strings.Join(argv, " ")
	return c
}

const methodSetBase = `
type A struct { V int; Kids []A; P *A; N NA; Tags []string; Ns []NA }
type NA struct{ X int }
type B struct { V int; Kids []B; P *B; N NB; Tags []string; Extra string; Ns []NB }
type NB struct{ X int }
type Ctx struct{ ID string }
func NewB() B { return B{Extra: "new"} }
func NewPB() *B { return &B{Extra: "new"} }
func Stamp(a A) string { return "s" }
func StampP(a *A) string { return "p" }
func FailN(n NA) (NB, error) { return NB{X: n.X}, nil }
// goverter:context c
func CtxN(n NA, c Ctx) NB { return NB{X: n.X} }
// goverter:context c
func VarCtx(c Ctx, ns ...NA) []NB { return make([]NB, len(ns)) }
func VarPlain(ns ...NA) []NB { return make([]NB, len(ns)) }
`

// FuzzMethodSetCase: a converter with 2-4 methods over one recursive type family in pointer / value / container / update
// variants, each with random field and flag settings: the methods reuse and constrain each other (lookup of sibling
// signatures, overlapping struct settings, sub-methods created for the recursion, update methods outside the lookup table).
func FuzzMethodSetCase(r *rand.Rand, name string) *Case {
	sigs := []string{
		"(source A) B", "(source *A) *B", "(source A) *B", "(source *A) B", "(source []A) []B", "(source []*A) []*B", "(source map[string]A) map[string]*B",
		"(source A, target *B)", "(source *A, target *B)", "(target *B, source A)", "(source NA) NB", "(source *NA) *NB", "(source []A) []*B", "(source **A) *B",
	}
	mlines := []string{"ignore Extra", "ignore Extra Tags", "map V Extra", "ignoreMissing", "matchIgnoreCase", "default NewB", "default NewPB", "autoMap N", "autoMap P", "map . Extra | Stamp", "map . Extra | StampP",
		"map N.X V", "map P.V V", "useZeroValueOnPointerInconsistency", "skipCopySameType", "update:ignoreZeroValueField", "default:update", "ignoreUnexported", "map Kids Kids", "ignore Kids", "ignore P", "wrapErrors", "context ctx"}
	clines := []string{"ignoreMissing", "skipCopySameType", "useZeroValueOnPointerInconsistency", "extend FailN", "extend CtxN", "extend VarCtx", "extend VarPlain", "wrapErrors", "matchIgnoreCase", "update:ignoreZeroValueField:struct", "default:update", "output:format function"}
	var sb strings.Builder
	sb.WriteString("package p\n" + methodSetBase + "\n// goverter:converter\n")
	for _, l := range clines {
		if r.Intn(5) == 0 {
			sb.WriteString("// goverter:" + l + "\n")
		}
	}
	sb.WriteString("type Converter interface {\n")
	n := 2 + r.Intn(3)
	used := map[string]bool{}
	var note []string
	for i := 0; i < n; i++ {
		sig := sigs[r.Intn(len(sigs))]
		if used[sig] {
			continue
		}
		used[sig] = true
		update := strings.Contains(sig, "target *B")
		if update {
			sb.WriteString("\t// goverter:update target\n")
		}
		for k := r.Intn(3); k > 0; k-- {
			sb.WriteString("\t// goverter:" + mlines[r.Intn(len(mlines))] + "\n")
		}
		full := sig
		switch r.Intn(4) {
		case 0:
			// error result
			if update {
				full = sig + " error"
			} else {
				full = sig[:strings.LastIndex(sig, ") ")+2] + "(" + sig[strings.LastIndex(sig, ") ")+2:] + ", error)"
			}
		case 1:
			// context parameter
			full = strings.Replace(sig, ")", ", ctx Ctx)", 1)
			sb.WriteString("\t// goverter:context ctx\n")
		}
		fmt.Fprintf(&sb, "\tM%d%s\n", i, full)
		note = append(note, full)
	}
	sb.WriteString("}\n")
	c := RawCase(name, map[string]string{"p/input.go": sb.String()}, nil, []string{"./p"})
	c.Feature("fuzz", "methodset")
	c.Note = strings.Join(note, " ; ")
	if strings.Contains(sb.String(), "goverter:wrapErrors") {
		// wrapErrors somewhere in the method set: fmt is a legitimate import of the emitted file (C18)
		c.AllowImports = []string{"fmt"}
	}
	return c
}

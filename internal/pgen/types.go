// Package pgen generates input programs for goverter from its own IR
// (independent of go/types) together with the expectation handed to the oracles.
package pgen

import (
	"fmt"
	"sort"
	"strings"
)

type Kind int

const (
	KBasic Kind = iota
	KNamed
	KPtr
	KSlice
	KArray
	KMap
	KStruct
	KIface // interface{} / any or named interface decl
	KFunc  // func()
	KChan
)

// Type is a Go type expression.
type Type struct {
	K      Kind
	Basic  string
	Decl   *Decl // KNamed
	Elem   *Type
	Key    *Type
	Len    int
	Fields []*Field
	Raw    string // KIface/KFunc/KChan literal text
	// StructPkg: package in whose source an unnamed struct type is written (accessibility of unexported fields).
	StructPkg *Package
	// Args are the type arguments of an instantiated generic named type (KNamed with Decl.TypeParams).
	Args []*Type
}

type Field struct {
	Name     string
	T        *Type
	Embedded bool
	Tag      string // struct tag without back quotes
}

// Decl is a named type declaration.
type Decl struct {
	Pkg    *Package
	Name   string
	Under  *Type
	Consts []Const // enum members
	// Methods are raw method declarations rendered after the type.
	Methods []string
	// TypeParams of a generic declaration (e.g. ["T"]); the underlying type refers to them as KBasic with that name.
	TypeParams []string
}

type Const struct {
	Name  string
	Value string // Go literal
}

// Package is one package of the generated module.
type Package struct {
	Path  string // import path suffix below the case root, e.g. "src"
	Name  string // package clause
	Decls []*Decl
	// Raw holds extra file contents: filename -> body (without package clause/imports handled by caller)
	Files map[string]string
}

func Basic(n string) *Type           { return &Type{K: KBasic, Basic: n} }
func Ptr(e *Type) *Type              { return &Type{K: KPtr, Elem: e} }
func Slice(e *Type) *Type            { return &Type{K: KSlice, Elem: e} }
func Array(n int, e *Type) *Type     { return &Type{K: KArray, Len: n, Elem: e} }
func Map(k, v *Type) *Type           { return &Type{K: KMap, Key: k, Elem: v} }
func Struct(f ...*Field) *Type       { return &Type{K: KStruct, Fields: f} }
func Named(d *Decl) *Type            { return &Type{K: KNamed, Decl: d} }
func RawType(k Kind, s string) *Type { return &Type{K: k, Raw: s} }
func F(name string, t *Type) *Field  { return &Field{Name: name, T: t} }

// Under returns the underlying type (resolving named types).
func (t *Type) Under() *Type {
	for t.K == KNamed {
		if len(t.Args) > 0 {
			t = t.Decl.Under.subst(t.Decl.TypeParams, t.Args)
			continue
		}
		t = t.Decl.Under
	}
	return t
}

// subst replaces type parameters (written as KBasic with the parameter's name) by the arguments.
func (t *Type) subst(params []string, args []*Type) *Type {
	switch t.K {
	case KBasic:
		for i, p := range params {
			if t.Basic == p {
				return args[i]
			}
		}
		return t
	case KPtr:
		return Ptr(t.Elem.subst(params, args))
	case KSlice:
		return Slice(t.Elem.subst(params, args))
	case KArray:
		return Array(t.Len, t.Elem.subst(params, args))
	case KMap:
		return Map(t.Key.subst(params, args), t.Elem.subst(params, args))
	case KStruct:
		st := &Type{K: KStruct}
		for _, f := range t.Fields {
			st.Fields = append(st.Fields, &Field{Name: f.Name, T: f.T.subst(params, args), Embedded: f.Embedded, Tag: f.Tag})
		}
		return st
	case KNamed:
		if len(t.Args) > 0 {
			n := &Type{K: KNamed, Decl: t.Decl}
			for _, a := range t.Args {
				n.Args = append(n.Args, a.subst(params, args))
			}
			return n
		}
	}
	return t
}

// Imports collects the packages a type expression refers to.
func (t *Type) Imports(from *Package, into map[*Package]bool) {
	switch t.K {
	case KNamed:
		if t.Decl.Pkg != from {
			into[t.Decl.Pkg] = true
		}
		for _, a := range t.Args {
			a.Imports(from, into)
		}
	case KPtr, KSlice, KArray, KChan:
		if t.Elem != nil {
			t.Elem.Imports(from, into)
		}
	case KMap:
		t.Key.Imports(from, into)
		t.Elem.Imports(from, into)
	case KStruct:
		for _, f := range t.Fields {
			f.T.Imports(from, into)
		}
	}
}

// Go renders the type as seen from package `from`; alias maps packages to their import alias.
func (t *Type) Go(from *Package, alias func(*Package) string) string {
	switch t.K {
	case KBasic:
		return t.Basic
	case KNamed:
		name := t.Decl.Name
		if t.Decl.Pkg != from {
			name = alias(t.Decl.Pkg) + "." + t.Decl.Name
		}
		if len(t.Args) > 0 {
			var as []string
			for _, a := range t.Args {
				as = append(as, a.Go(from, alias))
			}
			name += "[" + strings.Join(as, ", ") + "]"
		}
		return name
	case KPtr:
		return "*" + t.Elem.Go(from, alias)
	case KSlice:
		return "[]" + t.Elem.Go(from, alias)
	case KArray:
		return fmt.Sprintf("[%d]%s", t.Len, t.Elem.Go(from, alias))
	case KMap:
		return "map[" + t.Key.Go(from, alias) + "]" + t.Elem.Go(from, alias)
	case KStruct:
		var sb strings.Builder
		sb.WriteString("struct {")
		for i, f := range t.Fields {
			if i > 0 {
				sb.WriteString("; ")
			} else {
				sb.WriteString(" ")
			}
			if f.Embedded {
				sb.WriteString(f.T.Go(from, alias))
			} else {
				sb.WriteString(f.Name + " " + f.T.Go(from, alias))
			}
			if f.Tag != "" {
				sb.WriteString(" `" + f.Tag + "`")
			}
		}
		if len(t.Fields) > 0 {
			sb.WriteString(" ")
		}
		sb.WriteString("}")
		return sb.String()
	default:
		return t.Raw
	}
}

// Shape returns a name-free fingerprint of the type structure (named types expanded once).
func (t *Type) Shape() string {
	return t.shape(map[*Decl]bool{})
}

func (t *Type) shape(seen map[*Decl]bool) string {
	switch t.K {
	case KBasic:
		return t.Basic
	case KNamed:
		if seen[t.Decl] {
			return "rec"
		}
		seen[t.Decl] = true
		s := "N(" + t.Decl.Under.shape(seen) + ")"
		for _, a := range t.Args {
			s += "[" + a.shape(seen) + "]"
		}
		delete(seen, t.Decl)
		return s
	case KPtr:
		return "*" + t.Elem.shape(seen)
	case KSlice:
		return "[]" + t.Elem.shape(seen)
	case KArray:
		return fmt.Sprintf("[%d]%s", t.Len, t.Elem.shape(seen))
	case KMap:
		return "map[" + t.Key.shape(seen) + "]" + t.Elem.shape(seen)
	case KStruct:
		var parts []string
		for _, f := range t.Fields {
			parts = append(parts, f.T.shape(seen))
		}
		return "{" + strings.Join(parts, ",") + "}"
	}
	return t.Raw
}

// Kinds lists the constructor kinds used anywhere in the type (for coverage accounting).
func (t *Type) Kinds(into map[string]bool) {
	t.kinds(into, map[*Decl]bool{})
}

func (t *Type) kinds(into map[string]bool, seen map[*Decl]bool) {
	switch t.K {
	case KBasic:
		into["basic:"+t.Basic] = true
	case KNamed:
		if seen[t.Decl] {
			into["recursive"] = true
			return
		}
		seen[t.Decl] = true
		if t.Decl.Under.K == KBasic {
			into["namedbasic"] = true
		} else {
			into["named"] = true
		}
		if len(t.Args) > 0 {
			into["generic"] = true
			for _, a := range t.Args {
				a.kinds(into, seen)
			}
		}
		t.Decl.Under.kinds(into, seen)
	case KPtr:
		into["ptr"] = true
		if t.Elem.K == KPtr {
			into["ptrptr"] = true
		}
		t.Elem.kinds(into, seen)
	case KSlice:
		into["slice"] = true
		t.Elem.kinds(into, seen)
	case KArray:
		into["array"] = true
		t.Elem.kinds(into, seen)
	case KMap:
		into["map"] = true
		into["mapkey:"+kindName(t.Key.Under().K)] = true
		t.Key.kinds(into, seen)
		t.Elem.kinds(into, seen)
	case KStruct:
		if len(t.Fields) == 0 {
			into["emptystruct"] = true
		}
		into["struct"] = true
		for _, f := range t.Fields {
			if f.Embedded {
				into["embedded"] = true
			}
			if f.Tag != "" {
				into["tag"] = true
			}
			if f.Name != "" && f.Name[0] >= 'a' && f.Name[0] <= 'z' {
				into["unexportedfield"] = true
			}
			f.T.kinds(into, seen)
		}
	default:
		into["raw"] = true
	}
}

func kindName(k Kind) string {
	return [...]string{"basic", "named", "ptr", "slice", "array", "map", "struct", "iface", "func", "chan"}[k]
}

// RenderPackage renders the type declarations of a package into one file body.
func RenderDecls(p *Package, root string) string {
	imports := map[*Package]bool{}
	for _, d := range p.Decls {
		d.Under.Imports(p, imports)
	}
	var sb strings.Builder
	sb.WriteString("package " + p.Name + "\n\n")
	writeImports(&sb, imports, root, nil)
	alias := func(q *Package) string { return q.Name }
	for _, d := range p.Decls {
		tp := ""
		if len(d.TypeParams) > 0 {
			tp = "[" + strings.Join(d.TypeParams, ", ") + " any]"
		}
		fmt.Fprintf(&sb, "type %s%s %s\n\n", d.Name, tp, d.Under.Go(p, alias))
		if len(d.Consts) > 0 {
			sb.WriteString("const (\n")
			for _, c := range d.Consts {
				fmt.Fprintf(&sb, "\t%s %s = %s\n", c.Name, d.Name, c.Value)
			}
			sb.WriteString(")\n\n")
		}
		for _, m := range d.Methods {
			sb.WriteString(m + "\n\n")
		}
	}
	return sb.String()
}

func writeImports(sb *strings.Builder, imports map[*Package]bool, root string, extra []string) {
	var lines []string
	for p := range imports {
		path := root + "/" + p.Path
		last := path[strings.LastIndex(path, "/")+1:]
		if last != p.Name {
			lines = append(lines, fmt.Sprintf("\t%s %q", p.Name, path))
		} else {
			lines = append(lines, fmt.Sprintf("\t%q", path))
		}
	}
	for _, e := range extra {
		lines = append(lines, "\t"+e)
	}
	if len(lines) == 0 {
		return
	}
	sort.Strings(lines)
	sb.WriteString("import (\n" + strings.Join(lines, "\n") + "\n)\n\n")
}

package pgen

import (
	"fmt"
	"math/rand"
	"strings"

	"verif/vref"
)

// DefaultOpts configures the default-constructor corpus (C11).
type DefaultOpts struct {
	Format  string
	Seed    int64
	NValues int
	// PtrContainer forces the container shape, wrapped into pointers on both sides (*[]S -> *[]T with FUNC returning []T).
	PtrContainer bool
}

// DefaultCase builds a method with `default FUNC` in one of the documented shapes. Feature "mustfail" is set when the
// shape is *S -> T without useZeroValueOnPointerInconsistency (a pending default FUNC does not make that convertible).
func DefaultCase(r *rand.Rand, name string, o DefaultOpts) *Case {
	c := &Case{Name: name, Root: "vcase/" + name}
	ty := &Package{Path: "ty", Name: "ty"}
	conv := &Package{Path: "conv", Name: "conv", Files: map[string]string{}}
	c.Pkgs = []*Package{ty, conv}
	decl := func(name string, under *Type) *Decl {
		d := &Decl{Pkg: ty, Name: name, Under: under}
		ty.Decls = append(ty.Decls, d)
		return d
	}
	inS := decl("InnerS", Struct(F("X", Basic("int"))))
	inT := decl("InnerT", Struct(F("X", Basic("int"))))
	ctxD := decl("Ctx", Struct(F("ID", Basic("string"))))
	if !o.PtrContainer && r.Intn(9) == 0 {
		// S -> *T where a target field has no source (ignoreMissing): it keeps FUNC's value - also when S is recursive
		rec := r.Intn(2) == 0
		rsU := Struct(F("V", Basic("int")))
		rtU := Struct(F("V", Basic("int")), F("Keep", Basic("string")))
		rs := decl("RS", rsU)
		rt := decl("RT", rtU)
		if rec {
			rsU.Fields = append(rsU.Fields, F("Kids", Slice(Named(rs))))
			rtU.Fields = append(rtU.Fields, F("Kids", Slice(Named(rt))))
		}
		conv.Files["ctor.go"] = fmt.Sprintf("package conv\n\nimport \"%s/ty\"\n\nfunc NewT() *ty.RT {\n\treturn &ty.RT{Keep: \"kept\"}\n}\n", c.Root)
		cv := &Converter{Pkg: conv, File: "conv.go", Name: "Converter", Format: o.Format, Lines: []string{"ignoreMissing"}, OutPkgPath: "conv/generated", OutPkgName: "generated", ImplName: "ConverterImpl",
			Callables: map[string]string{"fn:NewT": "conv.NewT"}, GlueImports: []string{fmt.Sprintf("conv %q", c.Root+"/conv")}}
		if o.Format == "variables" {
			cv.OutPkgPath, cv.OutPkgName = "conv", "conv"
			cv.Callables["fn:NewT"] = "gen.NewT"
			cv.GlueImports = nil
		}
		fl := vref.Flags{IgnoreMissing: true}
		cv.Methods = append(cv.Methods, &Method{Name: "M", Params: []Param{{Name: "source", T: Named(rs), Role: "source"}}, Result: Ptr(Named(rt)), Lines: []string{"default NewT"},
			Spec: &vref.MethodSpec{Name: "M", Roles: []string{"source"}, Flags: fl, Default: "fn:NewT"}})
		nv := o.NValues
		if nv == 0 {
			nv = 40
		}
		cv.Spec = &vref.Spec{Seed: o.Seed, NValues: nv, Monitors: []string{"default"}, Conv: fl, Funcs: []*vref.FuncSpec{{Key: "fn:NewT", Kind: "default", Roles: []string{}}}}
		c.Convs = []*Converter{cv}
		c.Patterns = []string{"./conv"}
		c.Feature("shape", fmt.Sprintf("missingfield,recursive=%v", rec))
		c.Feature("fn", "source=false,ctx=false,err=false")
		c.Feature("recursivedefault", fmt.Sprint(rec))
		c.Feature("format", o.Format)
		return c
	}
	if o.PtrContainer || r.Intn(5) == 0 {
		// container targets: a map or a slice method with default FUNC starts from FUNC's result, too
		isMap := r.Intn(2) == 0
		named := r.Intn(2) == 0
		var sT, tT *Type
		tyS, lit := "", ""
		isArr := !isMap && r.Intn(3) == 0
		if isArr {
			// an array source never uses FUNC (there is no nil source); the elements still need T -> *U conversions
			named = false
			sT, tT = Array(2, Slice(Basic("int"))), Slice(Ptr(Slice(Basic("int"))))
			tyS, lit = "[]*[]int", "[]*[]int{nil}"
		} else if isMap {
			sT, tT = Map(Basic("string"), Named(inS)), Map(Basic("string"), Named(inT))
			tyS, lit = "map[string]ty.InnerT", "map[string]ty.InnerT{\"d\": {X: 5}}"
		} else {
			sT, tT = Slice(Named(inS)), Slice(Named(inT))
			tyS, lit = "[]ty.InnerT", "[]ty.InnerT{{X: 5}, {X: 6}}"
		}
		if named {
			sT = Named(decl("SC", sT))
			td := decl("TC", tT)
			tT = Named(td)
			tyS, lit = "ty.TC", "ty.TC"+lit[len(tyS):]
		}
		// a POINTER to the container on both sides, FUNC still returns the container itself: for a nil source the result
		// points to FUNC's value (the documented T-returning constructor for a *T target is not restricted to structs)
		ptrWrap := !isArr && o.PtrContainer
		if ptrWrap {
			sT, tT = Ptr(sT), Ptr(tT)
		}
		fnErr := r.Intn(3) == 0
		ret, body := tyS, "return "+lit
		if fnErr {
			ret, body = "("+tyS+", error)", body+", nil"
		}
		conv.Files["ctor.go"] = fmt.Sprintf("package conv\n\nimport \"%s/ty\"\n\nvar _ ty.InnerT\n\nfunc NewT() %s {\n\t%s\n}\n", c.Root, ret, body)
		cv := &Converter{Pkg: conv, File: "conv.go", Name: "Converter", Format: o.Format, OutPkgPath: "conv/generated", OutPkgName: "generated", ImplName: "ConverterImpl",
			Callables: map[string]string{"fn:NewT": "conv.NewT"}, GlueImports: []string{fmt.Sprintf("conv %q", c.Root+"/conv")}}
		if o.Format == "variables" {
			cv.OutPkgPath, cv.OutPkgName = "conv", "conv"
			cv.Callables["fn:NewT"] = "gen.NewT"
			cv.GlueImports = nil
		}
		cv.Methods = append(cv.Methods, &Method{Name: "M", Params: []Param{{Name: "source", T: sT, Role: "source"}}, Result: tT, HasErr: fnErr, Lines: []string{"default NewT"},
			Spec: &vref.MethodSpec{Name: "M", Roles: []string{"source"}, HasErr: fnErr, Default: "fn:NewT"}})
		nv := o.NValues
		if nv == 0 {
			nv = 40
		}
		cv.Spec = &vref.Spec{Seed: o.Seed, NValues: nv, Monitors: []string{"default"}, Funcs: []*vref.FuncSpec{{Key: "fn:NewT", Kind: "default", Roles: []string{}}}}
		c.Convs = []*Converter{cv}
		c.Patterns = []string{"./conv"}
		c.Feature("shape", fmt.Sprintf("container,map=%v,named=%v,array=%v,ptr=%v", isMap, named, isArr, ptrWrap))
		c.Feature("fn", fmt.Sprintf("source=false,ctx=false,err=%v", fnErr))
		c.Feature("format", o.Format)
		return c
	}
	sS := Struct(F("A", Basic("int")), F("B", Basic("string")), F("L", Slice(Basic("int"))), F("P", Ptr(Basic("int"))), F("N", Named(inS)), F("M", Map(Basic("string"), Basic("int"))))
	tS := Struct(F("A", Basic("int")), F("B", Basic("string")), F("L", Slice(Basic("int"))), F("P", Ptr(Basic("int"))), F("N", Named(inT)), F("M", Map(Basic("string"), Basic("int"))), F("Ign", Basic("string")), F("Ign2", Slice(Basic("string"))))
	// optional inline T -> *U positions (unnamed composites) and pointer-valued maps
	if r.Intn(2) == 0 {
		sS.Fields = append(sS.Fields, F("Q", Slice(Basic("string"))))
		tS.Fields = append(tS.Fields, F("Q", Ptr(Slice(Basic("string")))))
	}
	if r.Intn(2) == 0 {
		sS.Fields = append(sS.Fields, F("R", Struct(F("X", Basic("int")))))
		tS.Fields = append(tS.Fields, F("R", Ptr(Struct(F("X", Basic("int"))))))
	}
	if r.Intn(2) == 0 {
		sS.Fields = append(sS.Fields, F("MV", Map(Basic("string"), Basic("int"))))
		tS.Fields = append(tS.Fields, F("MV", Map(Basic("string"), Ptr(Basic("int")))))
	}
	fnMapped := r.Intn(2) == 0
	if fnMapped {
		// a target field computed from a source field by a function
		tS.Fields = append(tS.Fields, F("FM", Basic("string")))
	}
	S := decl("S", sS)
	T := decl("T", tS)
	srcPtr := r.Intn(2) == 0
	tgtPtr := r.Intn(2) == 0
	fnPtr := tgtPtr && r.Intn(2) == 0 // FUNC returns *T (only for pointer targets)
	fnSource := r.Intn(2) == 0
	fnCtx := r.Intn(3) == 0
	fnErr := r.Intn(3) == 0
	defUpdate := r.Intn(2) == 0
	skipCopyDefault := false
	flags := vref.Flags{DefaultUpdate: defUpdate}
	var convLines, methLines []string
	place := func(line string, set func(f *vref.Flags)) {
		// inheritable: CLI, converter or method
		switch r.Intn(3) {
		case 0:
			c.Args = append(c.Args, "-g", line)
		case 1:
			convLines = append(convLines, line)
		default:
			methLines = append(methLines, line)
		}
		set(&flags)
	}
	if defUpdate {
		place("default:update", func(f *vref.Flags) {})
	}
	if r.Intn(4) == 0 {
		// identical field types are passed through; nothing else may be imported or shared for that
		convLines = append(convLines, "skipCopySameType")
		flags.SkipCopy = true
		skipCopyDefault = true
	}
	noFlag := false
	if srcPtr && !tgtPtr {
		if r.Intn(3) == 0 {
			noFlag = true
			if r.Intn(2) == 0 {
				convLines = append(convLines, "useZeroValueOnPointerInconsistency no")
			}
		} else {
			place("useZeroValueOnPointerInconsistency", func(f *vref.Flags) { f.UseZero = true })
		}
	}
	switch r.Intn(3) {
	case 1:
		place("update:ignoreZeroValueField", func(f *vref.Flags) { f.IZBasic, f.IZStruct, f.IZNillable = true, true, true })
	case 2:
		place("update:ignoreZeroValueField:basic", func(f *vref.Flags) { f.IZBasic = true })
	}
	// the constructor
	var fparams, roles []string
	sT, tT := Named(S), Named(T)
	srcExpr := "ty.S"
	if srcPtr {
		sT = Ptr(sT)
		srcExpr = "*ty.S"
	}
	if tgtPtr {
		tT = Ptr(tT)
	}
	stamp := "9001"
	if fnSource {
		fparams = append(fparams, "source "+srcExpr)
		roles = append(roles, "source")
		if srcPtr {
			stamp = "stampPtr(source)"
		} else {
			stamp = "9001 + source.A%7"
		}
	}
	doc := ""
	if fnCtx {
		fparams = append(fparams, "ctx ty.Ctx")
		roles = append(roles, "ctx")
		doc = "// goverter:context ctx\n"
	}
	ret := "ty.T"
	lit := fmt.Sprintf("ty.T{A: %s, B: \"default\", L: []int{9, 9}, P: &seventySeven, N: ty.InnerT{X: 5}, M: map[string]int{\"d\": 1}, Ign: \"keep\", Ign2: []string{\"k\"}}", stamp)
	if fnCtx {
		lit = strings.Replace(lit, "\"default\"", "\"default|\" + ctx.ID", 1)
	}
	if fnPtr {
		ret = "*ty.T"
		lit = "&" + lit
	}
	body := "return " + lit
	if fnErr {
		ret = "(" + ret + ", error)"
		body += ", nil"
	}
	var fsb strings.Builder
	fmt.Fprintf(&fsb, "package conv\n\nimport \"%s/ty\"\n\nvar seventySeven = 77\n\nfunc stampPtr(s *ty.S) int {\n\tif s == nil {\n\t\treturn 9000\n\t}\n\treturn 9001 + s.A%%7\n}\n\nvar _ = stampPtr\n\n%sfunc NewT(%s) %s {\n\t%s\n}\n", c.Root, doc, strings.Join(fparams, ", "), ret, body)
	conv.Files["ctor.go"] = fsb.String()
	methLines = append([]string{"default NewT", "ignore Ign Ign2"}, methLines...)
	if fnMapped {
		methLines = append(methLines, "map A FM | FmtA")
		fsb.WriteString("\nfunc FmtA(v int) string { return \"fm:\" + string(rune('a'+(v%26+26)%26)) }\n")
		conv.Files["ctor.go"] = strings.Replace(fsb.String(), "Ign: \"keep\"", "FM: \"fm-default\", Ign: \"keep\"", 1)
	}
	params := []Param{{Name: "source", T: sT, Role: "source"}}
	mroles := []string{"source"}
	if fnCtx {
		params = append(params, Param{Name: "ctx", T: Named(ctxD), Role: "ctx"})
		mroles = append(mroles, "ctx")
		methLines = append(methLines, "context ctx")
	}
	cv := &Converter{Pkg: conv, File: "conv.go", Name: "Converter", Format: o.Format, Lines: convLines, OutPkgPath: "conv/generated", OutPkgName: "generated", ImplName: "ConverterImpl",
		Callables: map[string]string{"fn:NewT": "conv.NewT"}, GlueImports: []string{fmt.Sprintf("conv %q", c.Root+"/conv")}}
	if o.Format == "variables" {
		cv.OutPkgPath, cv.OutPkgName = "conv", "conv"
		cv.Callables["fn:NewT"] = "gen.NewT"
		cv.GlueImports = nil
	}
	cv.Methods = append(cv.Methods, &Method{Name: "M", Params: params, Result: tT, HasErr: fnErr, Lines: methLines,
		Spec: &vref.MethodSpec{Name: "M", Roles: mroles, Flags: flags, HasErr: fnErr, Default: "fn:NewT",
			Fields: defaultFields(fnMapped)}})
	if fnMapped {
		if o.Format == "variables" {
			cv.Callables["fn:FmtA"] = "gen.FmtA"
		} else {
			cv.Callables["fn:FmtA"] = "conv.FmtA"
		}
	}
	nv := o.NValues
	if nv == 0 {
		nv = 40
	}
	convFlags := vref.Flags{SkipCopy: skipCopyDefault}
	cv.Spec = &vref.Spec{Seed: o.Seed, NValues: nv, Monitors: []string{"default"}, Conv: convFlags,
		Funcs: []*vref.FuncSpec{{Key: "fn:NewT", Kind: "default", Roles: roles}}}
	if fnMapped {
		cv.Spec.Funcs = append(cv.Spec.Funcs, &vref.FuncSpec{Key: "fn:FmtA", Kind: "map", Roles: []string{"source"}})
	}
	c.Convs = []*Converter{cv}
	c.Patterns = []string{"./conv"}
	c.Feature("fnmapped", fmt.Sprint(fnMapped))
	c.Feature("shape", fmt.Sprintf("srcptr=%v,tgtptr=%v,fnptr=%v", srcPtr, tgtPtr, fnPtr))
	c.Feature("fn", fmt.Sprintf("source=%v,ctx=%v,err=%v", fnSource, fnCtx, fnErr))
	c.Feature("defaultupdate", fmt.Sprint(defUpdate))
	c.Feature("skipcopy", fmt.Sprint(skipCopyDefault))
	c.Feature("izv", fmt.Sprintf("b%v-s%v-n%v", flags.IZBasic, flags.IZStruct, flags.IZNillable))
	c.Feature("format", o.Format)
	if noFlag {
		c.Feature("mustfail", "pointer")
	}
	return c
}

// PointerCase builds a pointer-depth matrix case: ptr^a(X) -> ptr^b(X') at a position, with the flag
// useZeroValueOnPointerInconsistency absent or set at one of the three levels. It returns whether generation must succeed.
func PointerCase(r *rand.Rand, name string, o DefaultOpts) (*Case, bool) {
	c := &Case{Name: name, Root: "vcase/" + name}
	ty := &Package{Path: "ty", Name: "ty"}
	conv := &Package{Path: "conv", Name: "conv"}
	c.Pkgs = []*Package{ty, conv}
	a, b := r.Intn(3), r.Intn(3)
	structLeaf := r.Intn(2) == 0
	var sl, tl *Type = Basic("int"), Basic("int")
	if structLeaf {
		sd := &Decl{Pkg: ty, Name: "LeafS", Under: Struct(F("V", Basic("int")), F("W", Ptr(Basic("string"))))}
		td := &Decl{Pkg: ty, Name: "LeafT", Under: Struct(F("V", Basic("int")), F("W", Ptr(Basic("string"))))}
		ty.Decls = append(ty.Decls, sd, td)
		sl, tl = Named(sd), Named(td)
	}
	// leaves of IDENTICAL type under skipCopySameType: the value itself is passed through and, for T -> *T,
	// the emitted code must still point to a copy per element / entry
	skip := r.Intn(3) == 0
	sliceLeaf := false
	if skip {
		if structLeaf {
			tl = sl
		} else if r.Intn(2) == 0 {
			sl, tl = Slice(Basic("int")), Slice(Basic("int"))
			sliceLeaf = true
		}
	}
	wrap := func(t *Type, n int) *Type {
		for i := 0; i < n; i++ {
			t = Ptr(t)
		}
		return t
	}
	if skip && r.Intn(2) == 0 {
		a, b = 0, 1+r.Intn(2) // T -> *T / **T of a passed-through value
	}
	sx, tx := wrap(sl, a), wrap(tl, b)
	pos := []string{"top", "field", "elem", "mapval"}[r.Intn(4)]
	if skip && r.Intn(2) == 0 {
		pos = "mapval"
	}
	level := []string{"none", "cli", "conv", "meth"}[r.Intn(4)]
	var sT, tT *Type
	switch pos {
	case "top":
		sT, tT = sx, tx
	case "field":
		sd := &Decl{Pkg: ty, Name: "HS", Under: Struct(F("F", sx), F("K", Basic("int")))}
		td := &Decl{Pkg: ty, Name: "HT", Under: Struct(F("F", tx), F("K", Basic("int")))}
		ty.Decls = append(ty.Decls, sd, td)
		sT, tT = Named(sd), Named(td)
	case "elem":
		sT, tT = Slice(sx), Slice(tx)
	case "mapval":
		sT, tT = Map(Basic("string"), sx), Map(Basic("string"), tx)
	}
	if len(ty.Decls) == 0 {
		ty.Decls = append(ty.Decls, &Decl{Pkg: ty, Name: "Unused", Under: Basic("int")})
	}
	needFlag := a > b
	flags, convFlags := vref.Flags{}, vref.Flags{}
	var convLines, methLines []string
	switch level {
	case "cli":
		c.Args = append(c.Args, "-g", "useZeroValueOnPointerInconsistency")
		flags.UseZero, convFlags.UseZero = true, true
	case "conv":
		convLines = append(convLines, "useZeroValueOnPointerInconsistency yes")
		flags.UseZero, convFlags.UseZero = true, true
	case "meth":
		methLines = append(methLines, "useZeroValueOnPointerInconsistency")
		flags.UseZero = true
	}
	if skip {
		convLines = append(convLines, "skipCopySameType")
		flags.SkipCopy, convFlags.SkipCopy = true, true
	}
	switch r.Intn(6) {
	case 0:
		// default:update without any goverter:default must not change anything
		convLines = append(convLines, "default:update")
		c.Feature("defaultupdate-inherited", "conv")
	case 1:
		c.Args = append(c.Args, "-g", "default:update yes")
		c.Feature("defaultupdate-inherited", "cli")
	}
	// does the value in effect reach the position? generated sub-methods see the converter level only
	effective := flags.UseZero
	if level == "meth" && structLeaf {
		// pointers to named structs are converted by a generated sub-method unless the method's own pair is that pointer pair
		effective = pos == "top" && a <= 1
		if pos == "top" && a == 2 {
			effective = false
		}
	}
	ok := !needFlag || effective
	judge := true
	if level == "meth" && structLeaf && needFlag {
		judge = false // the sub-method boundary for named pointees under a method-level flag is not judged
	}
	cv := &Converter{Pkg: conv, File: "conv.go", Name: "Converter", Format: o.Format, Lines: convLines, OutPkgPath: "conv/generated", OutPkgName: "generated", ImplName: "ConverterImpl"}
	if o.Format == "variables" {
		cv.OutPkgPath, cv.OutPkgName = "conv", "conv"
	}
	cv.Methods = append(cv.Methods, &Method{Name: "M", Params: []Param{{Name: "source", T: sT, Role: "source"}}, Result: tT, Lines: methLines,
		Spec: &vref.MethodSpec{Name: "M", Roles: []string{"source"}, Flags: flags}})
	nv := o.NValues
	if nv == 0 {
		nv = 30
	}
	cv.Spec = &vref.Spec{Seed: o.Seed, NValues: nv, Monitors: []string{"value", "intact"}, Conv: convFlags}
	if level == "meth" && structLeaf {
		// value judgement would need the sub-method boundary model: run for panics only
		cv.Methods[0].Spec.NoValue = true
	}
	c.Convs = []*Converter{cv}
	c.Patterns = []string{"./conv"}
	c.Feature("ptr", fmt.Sprintf("%d->%d", a, b))
	c.Feature("pos", pos)
	c.Feature("level", level)
	c.Feature("leaf", map[bool]string{true: "struct", false: "int"}[structLeaf])
	if sliceLeaf {
		c.Feature("leaf", "slice")
	}
	c.Feature("skipcopy", fmt.Sprint(skip))
	c.Feature("format", o.Format)
	if !judge {
		c.Feature("nojudge", "true")
	}
	return c, ok
}

func defaultFields(fnMapped bool) map[string]vref.FieldSpec {
	m := map[string]vref.FieldSpec{"Ign": {Ignore: true}, "Ign2": {Ignore: true}}
	if fnMapped {
		m["FM"] = vref.FieldSpec{Path: []string{"A"}, Func: "fn:FmtA"}
	}
	return m
}

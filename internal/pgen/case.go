package pgen

import (
	"encoding/json"
	"fmt"
	"sort"
	"strings"

	"verif/vref"
)

type Param struct {
	Name string
	T    *Type
	Role string // source | ctx | target
	// Variadic: the (last, slice-typed) parameter is declared as ...Elem
	Variadic bool
}

// goType renders the parameter type as written in a signature.
func (pa Param) goType(p *Package, alias func(*Package) string) string {
	if pa.Variadic && pa.T.K == KSlice {
		return "..." + pa.T.Elem.Go(p, alias)
	}
	return pa.T.Go(p, alias)
}

type Method struct {
	Name   string
	Params []Param
	Result *Type // nil for update methods
	HasErr bool
	Lines  []string // goverter: setting lines (without prefix)
	Spec   *vref.MethodSpec
}

// Converter is one goverter:converter interface or goverter:variables block.
type Converter struct {
	Pkg     *Package
	File    string // file inside Pkg that declares it
	Name    string // interface name (ignored for variables)
	Format  string // struct | function | variables
	Lines   []string
	Methods []*Method
	// Output location (for glue): package holding the emitted code, and its import path suffix.
	OutPkgPath   string // relative to case root
	OutPkgName   string
	ImplName     string
	Spec         *vref.Spec
	ExtraImports []string
	// GlueImports are import lines only the glue package needs (custom function packages).
	GlueImports []string
	// Callables adds custom functions to the glue: key -> Go expression (qualified from the glue package).
	Callables map[string]string
}

// Case is one scratch program: packages + converters + CLI invocation.
type Case struct {
	Name     string
	Root     string // import path of the case dir
	Pkgs     []*Package
	Convs    []*Converter
	Args     []string // CLI args before patterns
	RawArgs  []string // if non-nil: the complete argument vector (argv fuzzing)
	Patterns []string
	Features map[string]string
	Note     string
	// PostFiles are written after generation (hand-written glue / assertion files), relative to the case dir.
	PostFiles map[string]string
	// GluePkgs lists package directories (relative to the case dir) that expose Run(o *vref.Out) and are linked into the batch.
	GluePkgs []string
	// AllowImports lists extra import paths emitted files may legitimately use (C18).
	AllowImports []string
}

func (c *Case) Feature(k, v string) {
	if c.Features == nil {
		c.Features = map[string]string{}
	}
	c.Features[k] = v
}

// Fingerprint is a stable digest input of the case structure.
func (c *Case) Fingerprint() string {
	var parts []string
	for _, cv := range c.Convs {
		parts = append(parts, cv.Format, strings.Join(cv.Lines, ";"))
		for _, m := range cv.Methods {
			var ps []string
			for _, p := range m.Params {
				ps = append(ps, p.Role+":"+p.T.Shape())
			}
			r := ""
			if m.Result != nil {
				r = m.Result.Shape()
			}
			parts = append(parts, strings.Join(ps, ",")+"->"+r+fmt.Sprint(m.HasErr)+strings.Join(m.Lines, ";"))
		}
	}
	parts = append(parts, strings.Join(c.Args, " "))
	return strings.Join(parts, "|")
}

// Files renders all input files of the case, relative to the case directory.
func (c *Case) Files() map[string]string {
	files := map[string]string{}
	for _, p := range c.Pkgs {
		if len(p.Decls) > 0 {
			files[p.Path+"/types.go"] = RenderDecls(p, c.Root)
		}
		for name, body := range p.Files {
			files[p.Path+"/"+name] = body
		}
	}
	byFile := map[string][]*Converter{}
	var order []string
	for _, cv := range c.Convs {
		k := cv.Pkg.Path + "/" + cv.File
		if _, ok := byFile[k]; !ok {
			order = append(order, k)
		}
		byFile[k] = append(byFile[k], cv)
	}
	for _, k := range order {
		files[k] = c.renderConvFile(byFile[k])
	}
	return files
}

func (c *Case) renderConvFile(cvs []*Converter) string {
	p := cvs[0].Pkg
	imports := map[*Package]bool{}
	var extra []string
	for _, cv := range cvs {
		for _, m := range cv.Methods {
			for _, pa := range m.Params {
				pa.T.Imports(p, imports)
			}
			if m.Result != nil {
				m.Result.Imports(p, imports)
			}
		}
		extra = append(extra, cv.ExtraImports...)
	}
	var sb strings.Builder
	sb.WriteString("package " + p.Name + "\n\n")
	writeImports(&sb, imports, c.Root, extra)
	alias := func(q *Package) string { return q.Name }
	for _, cv := range cvs {
		if cv.Format == "variables" {
			sb.WriteString("// goverter:variables\n")
			for _, l := range cv.Lines {
				sb.WriteString("// goverter:" + l + "\n")
			}
			sb.WriteString("var (\n")
			for _, m := range cv.Methods {
				for _, l := range m.Lines {
					sb.WriteString("\t// goverter:" + l + "\n")
				}
				sb.WriteString("\t" + m.Name + " func(" + c.params(m, p, alias) + ")" + c.results(m, p, alias) + "\n")
			}
			sb.WriteString(")\n\n")
			continue
		}
		sb.WriteString("// goverter:converter\n")
		if cv.Format == "function" {
			sb.WriteString("// goverter:output:format function\n")
		}
		for _, l := range cv.Lines {
			sb.WriteString("// goverter:" + l + "\n")
		}
		sb.WriteString("type " + cv.Name + " interface {\n")
		for _, m := range cv.Methods {
			for _, l := range m.Lines {
				sb.WriteString("\t// goverter:" + l + "\n")
			}
			sb.WriteString("\t" + m.Name + "(" + c.params(m, p, alias) + ")" + c.results(m, p, alias) + "\n")
		}
		sb.WriteString("}\n\n")
	}
	return sb.String()
}

func (c *Case) params(m *Method, p *Package, alias func(*Package) string) string {
	var ps []string
	for _, pa := range m.Params {
		if pa.Name != "" {
			ps = append(ps, pa.Name+" "+pa.goType(p, alias))
		} else {
			ps = append(ps, pa.goType(p, alias))
		}
	}
	return strings.Join(ps, ", ")
}

func (c *Case) results(m *Method, p *Package, alias func(*Package) string) string {
	switch {
	case m.Result == nil && m.HasErr:
		return " error"
	case m.Result == nil:
		return ""
	case m.HasErr:
		return " (" + m.Result.Go(p, alias) + ", error)"
	}
	return " " + m.Result.Go(p, alias)
}

// Glue renders the glue package source for a converter (written after generation).
// It lives in <case>/glue_<i>/ and exposes Run(o *vref.Out).
func (c *Case) Glue(i int, cv *Converter) (path, body string) {
	path = fmt.Sprintf("glue%d/glue.go", i)
	var sb strings.Builder
	fmt.Fprintf(&sb, "package glue%d\n\nimport (\n\t\"vcase/vref\"\n", i)
	outImport := c.Root + "/" + cv.OutPkgPath
	fmt.Fprintf(&sb, "\tgen %q\n", outImport)
	for _, e := range cv.ExtraImports {
		sb.WriteString("\t" + e + "\n")
	}
	for _, e := range cv.GlueImports {
		sb.WriteString("\t" + e + "\n")
	}
	sb.WriteString(")\n\n")
	spec := *cv.Spec
	spec.Case = c.Name
	spec.Methods = nil
	for _, m := range cv.Methods {
		if m.Spec != nil {
			spec.Methods = append(spec.Methods, m.Spec)
		}
	}
	js, _ := json.Marshal(spec)
	fmt.Fprintf(&sb, "const spec = %q\n\n", string(js))
	sb.WriteString("func Run(o *vref.Out) {\n")
	switch cv.Format {
	case "struct":
		fmt.Fprintf(&sb, "\timpl := &gen.%s{}\n", cv.ImplName)
		sb.WriteString("\tvref.RunCase(o, spec, map[string]any{\n\t\t\"@impl\": impl,\n")
		for _, m := range cv.Methods {
			fmt.Fprintf(&sb, "\t\t%q: impl.%s,\n", m.Name, m.Name)
		}
	default:
		sb.WriteString("\tvref.RunCase(o, spec, map[string]any{\n")
		for _, m := range cv.Methods {
			fmt.Fprintf(&sb, "\t\t%q: gen.%s,\n", m.Name, m.Name)
		}
	}
	var keys []string
	for k := range cv.Callables {
		keys = append(keys, k)
	}
	sort.Strings(keys)
	for _, k := range keys {
		fmt.Fprintf(&sb, "\t\t%q: %s,\n", k, cv.Callables[k])
	}
	sb.WriteString("\t})\n}\n")
	return path, sb.String()
}

// Assert renders the API assertion file for a converter, written from the IR
// (not from goverter's output): the emitted code must implement what was declared.
// It returns "" when the format needs no compile-time assertion.
func (c *Case) Assert(i int, cv *Converter) (path, body string) {
	same := cv.Pkg.Path == cv.OutPkgPath
	var from *Package
	var sb strings.Builder
	if same {
		from = cv.Pkg
		path = fmt.Sprintf("%s/zz_assert%d.go", cv.Pkg.Path, i)
		sb.WriteString("package " + cv.Pkg.Name + "\n\n")
	} else {
		from = &Package{Path: fmt.Sprintf("assert%d", i), Name: fmt.Sprintf("assert%d", i)}
		path = fmt.Sprintf("assert%d/assert.go", i)
		sb.WriteString("package " + from.Name + "\n\n")
	}
	imports := map[*Package]bool{}
	var decls []string
	alias := func(q *Package) string { return q.Name }
	genQ := ""
	var extra []string
	if !same {
		extra = append(extra, fmt.Sprintf("gen %q", c.Root+"/"+cv.OutPkgPath))
		genQ = "gen."
	}
	switch cv.Format {
	case "struct":
		if !same {
			imports[cv.Pkg] = true
		}
		iface := cv.Name
		if !same {
			iface = cv.Pkg.Name + "." + cv.Name
		}
		decls = append(decls, fmt.Sprintf("var _ %s = &%s%s{}", iface, genQ, cv.ImplName))
	case "function":
		for _, m := range cv.Methods {
			for _, pa := range m.Params {
				pa.T.Imports(from, imports)
			}
			if m.Result != nil {
				m.Result.Imports(from, imports)
			}
			var ps []string
			for _, pa := range m.Params {
				ps = append(ps, pa.goType(from, alias))
			}
			decls = append(decls, fmt.Sprintf("var _ func(%s)%s = %s%s", strings.Join(ps, ", "), c.results(m, from, alias), genQ, m.Name))
		}
	default:
		return "", ""
	}
	writeImports(&sb, imports, c.Root, extra)
	sb.WriteString(strings.Join(decls, "\n") + "\n")
	return path, sb.String()
}

package pgen

import (
	"fmt"
	"math/rand"
)

// BreakTarget applies one convertibility-breaking (or at least convertibility-changing) mutation somewhere in the
// target type of the first method of a structural case and returns a description. The independent judgement J decides
// what the outcome must be; the mutation only has to make the interesting direction (rejection) likely.
func BreakTarget(r *rand.Rand, c *Case) string {
	m := c.Convs[0].Methods[0]
	// collect mutable positions: (get, set) pairs over the target type tree, descending into named declarations
	type slot struct {
		get  func() *Type
		set  func(*Type)
		path string
	}
	var slots []slot
	seen := map[*Decl]bool{}
	var walk func(get func() *Type, set func(*Type), path string, depth int)
	walk = func(get func() *Type, set func(*Type), path string, depth int) {
		t := get()
		if depth > 6 {
			return
		}
		slots = append(slots, slot{get, set, path})
		switch t.K {
		case KNamed:
			if len(t.Args) > 0 || seen[t.Decl] {
				return
			}
			seen[t.Decl] = true
			d := t.Decl
			walk(func() *Type { return d.Under }, func(n *Type) { d.Under = n }, path+"<"+d.Name+">", depth+1)
		case KPtr, KSlice, KArray:
			walk(func() *Type { return t.Elem }, func(n *Type) { t.Elem = n }, path+"/elem", depth+1)
		case KMap:
			// map keys are left alone: most mutations would make the key type invalid (not comparable)
			walk(func() *Type { return t.Elem }, func(n *Type) { t.Elem = n }, path+"/val", depth+1)
		case KStruct:
			for _, f := range t.Fields {
				f := f
				walk(func() *Type { return f.T }, func(n *Type) { f.T = n }, path+"."+f.Name, depth+1)
			}
		}
	}
	walk(func() *Type { return m.Result }, func(n *Type) { m.Result = n }, "T", 0)
	for tries := 0; tries < 30; tries++ {
		s := slots[r.Intn(len(slots))]
		t := s.get()
		switch r.Intn(7) {
		case 0: // basic kind change
			if t.K == KBasic {
				alt := map[string]string{"int": "int64", "int64": "int", "string": "int", "bool": "string", "float64": "float32", "uint8": "int8", "int32": "uint32"}[t.Basic]
				if alt == "" {
					alt = "string"
					if t.Basic == "string" {
						alt = "int"
					}
				}
				s.set(Basic(alt))
				return fmt.Sprintf("%s: basic %s -> %s", s.path, t.Basic, alt)
			}
		case 1: // slice -> array
			if t.K == KSlice {
				s.set(Array(2, t.Elem))
				if byValueCycle(m.Result, map[*Decl]bool{}) {
					// the slice was what made a recursive type valid
					s.set(t)
					continue
				}
				return s.path + ": slice -> array"
			}
		case 2: // add a target-only field
			if t.K == KStruct {
				t.Fields = append(t.Fields, F("OnlyInTarget", Basic("int")))
				return s.path + ": target-only field"
			}
		case 3: // struct/slice -> map
			if t.K == KStruct || t.K == KSlice {
				s.set(Map(Basic("string"), Basic("int")))
				return s.path + ": " + kindName(t.K) + " -> map"
			}
		case 4: // pointer removed (needs the flag)
			if t.K == KPtr {
				s.set(t.Elem)
				if byValueCycle(m.Result, map[*Decl]bool{}) {
					// the pointer was what made a recursive type valid: T would contain itself
					s.set(t)
					continue
				}
				return s.path + ": *T -> T"
			}
		case 5: // map -> slice
			if t.K == KMap {
				s.set(Slice(t.Elem))
				return s.path + ": map -> slice"
			}
		case 6: // interface in place of a concrete type
			if t.K == KBasic || t.K == KStruct {
				s.set(RawType(KIface, "any"))
				return s.path + ": concrete -> any"
			}
		}
	}
	return ""
}

// byValueCycle reports whether t contains a named type by value that contains itself by value (invalid Go).
func byValueCycle(t *Type, open map[*Decl]bool) bool {
	return byValueCycleRec(t, open, map[*Decl]bool{})
}

func byValueCycleRec(t *Type, open, done map[*Decl]bool) bool {
	switch t.K {
	case KNamed:
		if len(t.Args) > 0 {
			return false
		}
		if open[t.Decl] {
			return true
		}
		if done[t.Decl] {
			return false
		}
		done[t.Decl] = true
		open[t.Decl] = true
		defer delete(open, t.Decl)
		return byValueCycleRec(t.Decl.Under, open, done)
	case KArray:
		return byValueCycleRec(t.Elem, open, done)
	case KStruct:
		for _, f := range t.Fields {
			if byValueCycleRec(f.T, open, done) {
				return true
			}
		}
	case KPtr, KSlice, KMap:
		// an indirection ends the by-value chain; the types below must be valid themselves
		if t.Elem != nil && byValueCycleRec(t.Elem, map[*Decl]bool{}, done) {
			return true
		}
		if t.K == KMap && t.Key != nil && byValueCycleRec(t.Key, map[*Decl]bool{}, done) {
			return true
		}
	}
	return false
}

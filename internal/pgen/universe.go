package pgen

import (
	"fmt"
	"strings"
)

// Universe is a finite, completely enumerated set of types for C03.
type Universe struct {
	Ty, Ty2 *Package
	Types   []*Type
	Labels  []string
	Shards  []*Package // converter packages u00..
	Out     []*Package // output package of each shard (for accessibility)
	Root    string
}

func isComparableLeaf(t *Type) bool {
	u := t.Under()
	switch u.K {
	case KFunc, KSlice, KMap:
		return false
	case KStruct:
		for _, f := range u.Fields {
			if !isComparableLeaf(f.T) {
				return false
			}
		}
	}
	return true
}

// BuildUniverse creates the leaves and closes them under `apps` constructor applications.
func BuildUniverse(root string, apps int, small bool, shards int) *Universe {
	u := &Universe{Root: root}
	ty := &Package{Path: "ty", Name: "ty"}
	ty2 := &Package{Path: "ty2", Name: "ty2"}
	u.Ty, u.Ty2 = ty, ty2
	decl := func(p *Package, name string, under *Type, consts ...Const) *Type {
		d := &Decl{Pkg: p, Name: name, Under: under, Consts: consts}
		p.Decls = append(p.Decls, d)
		return Named(d)
	}
	var leaves []*Type
	var labels []string
	add := func(l string, t *Type) { leaves = append(leaves, t); labels = append(labels, l) }
	if small {
		add("int", Basic("int"))
		add("string", Basic("string"))
		add("NI1", decl(ty, "NI1", Basic("int")))
		add("SA", decl(ty, "SA", Struct(F("A", Basic("int")), F("B", Basic("string")))))
		add("SB", decl(ty, "SB", Struct(F("A", Basic("int")), F("B", Basic("string")))))
		add("E1", decl(ty, "E1", Basic("int"), Const{"Red", "1"}, Const{"Green", "2"}))
	} else {
		for _, b := range []string{"int", "int32", "int64", "string", "bool", "float64", "byte", "uint8", "rune"} {
			add(b, Basic(b))
		}
		add("NI1", decl(ty, "NI1", Basic("int")))
		add("NI2", decl(ty, "NI2", Basic("int")))
		add("NS", decl(ty, "NS", Basic("string")))
		add("E1", decl(ty, "E1", Basic("int"), Const{"Red", "1"}, Const{"Green", "2"}))
		add("E2", decl(ty2, "E2", Basic("int"), Const{"Red", "10"}, Const{"Green", "20"}))
		add("E3", decl(ty, "E3", Basic("int"), Const{"Cyan", "1"}, Const{"Magenta", "2"}))
		// float-based enums: detected like the integer ones
		add("EF1", decl(ty, "EF1", Basic("float64"), Const{"FRed", "1.5"}, Const{"FGreen", "2.5"}))
		add("EF3", decl(ty, "EF3", Basic("float64"), Const{"FCyan", "1.5"}, Const{"FMagenta", "2.5"}))
		add("SA", decl(ty, "SA", Struct(F("A", Basic("int")), F("B", Basic("string")))))
		add("SB", decl(ty, "SB", Struct(F("A", Basic("int")), F("B", Basic("string")))))
		add("SC", decl(ty, "SC", Struct(F("A", Basic("int")), F("B", Basic("string")), F("C", Basic("bool")))))
		add("SD", decl(ty, "SD", Struct(F("A", Basic("string")), F("B", Basic("string")))))
		add("SU", decl(ty, "SU", Struct(F("A", Basic("int")), F("b", Basic("string")))))
		add("SX", decl(ty, "SX", Struct(F("FOO", Basic("int")), F("Foo", Basic("int")))))
		add("SY", decl(ty, "SY", Struct(F("FoO", Basic("int")))))
		add("any", RawType(KIface, "any"))
		add("Str", decl(ty, "Str", RawType(KIface, "interface{ String() string }")))
		add("func", RawType(KFunc, "func()"))
		add("chan", RawType(KChan, "chan int"))
		// named complex / bool types WITH constants: not enums (enums are integers, floats and strings), plain named basics
		add("NC1", decl(ty, "NC1", Basic("complex128"), Const{"CRe1", "1"}, Const{"CIm1", "2i"}))
		add("NC2", decl(ty, "NC2", Basic("complex128"), Const{"CRe2", "1"}, Const{"CIm2", "2i"}))
		add("NB1", decl(ty, "NB1", Basic("bool"), Const{"BYes1", "true"}))
		add("NB2", decl(ty2, "NB2", Basic("bool"), Const{"BYes2", "true"}))
	}
	types := append([]*Type{}, leaves...)
	lbls := append([]string{}, labels...)
	frontier := append([]*Type{}, leaves...)
	flabels := append([]string{}, labels...)
	nmCount := 0
	for a := 0; a < apps; a++ {
		var next []*Type
		var nl []string
		for i, t := range frontier {
			l := flabels[i]
			push := func(label string, nt *Type) {
				next = append(next, nt)
				nl = append(nl, label)
			}
			push("*"+l, Ptr(t))
			push("[]"+l, Slice(t))
			push("[2]"+l, Array(2, t))
			push("map[string]"+l, Map(Basic("string"), t))
			if isComparableLeaf(t) {
				push("map["+l+"]string", Map(t, Basic("string")))
			}
			push("struct{F "+l+"}", Struct(F("F", t)))
			nmCount++
			push("Nm("+l+")", decl(ty, fmt.Sprintf("Nm%d", nmCount), t))
		}
		types = append(types, next...)
		lbls = append(lbls, nl...)
		frontier, flabels = next, nl
	}
	u.Types, u.Labels = types, lbls
	for s := 0; s < shards; s++ {
		n := fmt.Sprintf("u%02d", s)
		u.Shards = append(u.Shards, &Package{Path: n, Name: n})
		u.Out = append(u.Out, &Package{Path: n + "/generated", Name: "generated"})
	}
	return u
}

// PairName is the interface name of pair (i,j).
func PairName(i, j int) string { return fmt.Sprintf("C%dx%d", i, j) }

// Shard returns the shard index of pair (i,j).
func (u *Universe) Shard(i, j int) int { return (i*len(u.Types) + j) % len(u.Shards) }

// Files renders the universe: type packages and one converter interface per selected pair.
func (u *Universe) Files(sel func(i, j int) bool) map[string]string {
	files := map[string]string{}
	files["ty/types.go"] = RenderDecls(u.Ty, u.Root)
	if len(u.Ty2.Decls) > 0 {
		files["ty2/types.go"] = RenderDecls(u.Ty2, u.Root)
	}
	bodies := make([]strings.Builder, len(u.Shards))
	usesTy2 := make([]bool, len(u.Shards))
	usesTy := make([]bool, len(u.Shards))
	for i, s := range u.Types {
		for j, t := range u.Types {
			if sel != nil && !sel(i, j) {
				continue
			}
			sh := u.Shard(i, j)
			pk := u.Shards[sh]
			alias := func(q *Package) string { return q.Name }
			im := map[*Package]bool{}
			s.Imports(pk, im)
			t.Imports(pk, im)
			if im[u.Ty] {
				usesTy[sh] = true
			}
			if im[u.Ty2] {
				usesTy2[sh] = true
			}
			fmt.Fprintf(&bodies[sh], "// goverter:converter\ntype %s interface {\n\tM(s %s) %s\n}\n\n", PairName(i, j), s.Go(pk, alias), t.Go(pk, alias))
		}
	}
	for sh, pk := range u.Shards {
		if bodies[sh].Len() == 0 {
			continue
		}
		var sb strings.Builder
		sb.WriteString("package " + pk.Name + "\n\n")
		var imps []string
		if usesTy[sh] {
			imps = append(imps, fmt.Sprintf("\t%q", u.Root+"/ty"))
		}
		if usesTy2[sh] {
			imps = append(imps, fmt.Sprintf("\t%q", u.Root+"/ty2"))
		}
		if len(imps) > 0 {
			sb.WriteString("import (\n" + strings.Join(imps, "\n") + "\n)\n\n")
		}
		sb.WriteString(bodies[sh].String())
		files[pk.Path+"/conv.go"] = sb.String()
	}
	return files
}

package pgen

import (
	"fmt"
	"math/rand"
	"regexp"
	"sort"
	"strings"

	"verif/vref"
)

// EnumOpts configures the enum corpus (C08).
type EnumOpts struct {
	Format  string
	Seed    int64
	NValues int
	// Sibling forces the sibling converter with enum handling off whenever the case admits one.
	Sibling bool
	// Multi turns a prefix-transformed case into one whose transformer pattern matches SEVERAL times inside every
	// member name (Col_or_Red -> ColorRed through `_(\w)` -> `$1`): all matches are replaced.
	Multi bool
}

type enumMember struct {
	name  string
	value string // literal
}

var enumBase = []string{"Red", "Green", "Blue", "Cyan", "Black", "White"}

func enumLiteral(kind string, i int) string {
	switch kind {
	case "string":
		return fmt.Sprintf("%q", fmt.Sprintf("v%d", i))
	case "float64", "float32":
		if i == 2 {
			return "1.5000001" // distinct from member 1 (1.5) only in the seventh decimal
		}
		return fmt.Sprintf("%d.5", i)
	case "uint64":
		if i == 3 {
			return "18446744073709551615"
		}
		return fmt.Sprint(i)
	case "int8":
		if i == 4 {
			return "-128"
		}
		return fmt.Sprint(i)
	}
	return fmt.Sprint(i)
}

func literalPlain(lit string) string {
	return strings.Trim(lit, "\"")
}

// EnumCase builds one enum conversion case together with its resolved mapping (the model).
// The second result tells whether generation must fail, with the reason.
func EnumCase(r *rand.Rand, name string, o EnumOpts) (*Case, string) {
	c := &Case{Name: name, Root: "vcase/" + name}
	ea := &Package{Path: "ea", Name: "ea"}
	eb := &Package{Path: "eb", Name: "eb"}
	conv := &Package{Path: "conv", Name: "conv"}
	samePkg := r.Intn(4) == 0
	if samePkg {
		eb = ea
		c.Pkgs = []*Package{ea, conv}
	} else {
		c.Pkgs = []*Package{ea, eb, conv}
	}
	kinds := []string{"int", "int", "string", "uint8", "int8", "uint64", "float64", "int32"}
	sk, tk := kinds[r.Intn(len(kinds))], kinds[r.Intn(len(kinds))]
	nameMode := []string{"same", "same", "prefix", "mapped", "custom"}[r.Intn(5)]
	unexported := "" // "", "same" (output in the enums' package), "foreign"
	if samePkg && nameMode == "same" {
		nameMode = "prefix" // constants of two enums in one package cannot share names
	}
	sp, tp := "", ""
	if nameMode != "same" {
		sp, tp = "Color", "Paint"
	}
	if nameMode == "custom" {
		sp, tp = "Col", ""
		if samePkg {
			tp = "P" // two enums in one package need distinct names: Col* -> P* is not expressible by trim-prefix
			nameMode = "prefix"
			sp, tp = "Color", "Paint"
		}
	}
	if r.Intn(6) == 0 {
		// unexported members: usable only when the code is emitted into the enums' own package
		if samePkg && r.Intn(2) == 0 {
			unexported = "same"
		} else {
			unexported = "foreign"
		}
		sp = strings.ToLower(sp[:min(1, len(sp))]) + sp[min(1, len(sp)):]
		if sp == "" {
			sp = "m"
			if nameMode == "same" {
				tp = "m"
			}
		}
	}
	multi := false
	if o.Multi && nameMode == "prefix" && unexported == "" && sp == "Color" {
		multi = true
		sp, tp = "Col_or_", "Color"
	}
	n := 2 + r.Intn(4)
	var sm, tm []enumMember
	for i := 0; i < n; i++ {
		sm = append(sm, enumMember{sp + enumBase[i], enumLiteral(sk, i+1)})
		tm = append(tm, enumMember{tp + enumBase[i], enumLiteral(tk, i+11)})
	}
	// aliases (duplicate values)
	alias := r.Intn(3) == 0
	if alias {
		sm = append(sm, enumMember{sp + "Alias", sm[0].value})
		tm = append(tm, enumMember{tp + "Alias", tm[0].value})
	}
	// extra target-only member
	if r.Intn(3) == 0 {
		tm = append(tm, enumMember{tp + "Extra", enumLiteral(tk, 40)})
	}
	// a target member that carries the NAME of a source member although the transformer maps that source member
	// elsewhere: the configured transformer decides, not the identical name
	if nameMode == "prefix" && !samePkg && sp != tp && r.Intn(2) == 0 {
		tm = append(tm, enumMember{sm[0].name, enumLiteral(tk, 50)})
		c.Feature("decoy", "samename")
	}
	KA := &Decl{Pkg: ea, Name: "KA", Under: Basic(sk)}
	KB := &Decl{Pkg: eb, Name: "KB", Under: Basic(tk)}
	for _, m := range sm {
		KA.Consts = append(KA.Consts, Const{m.name, m.value})
	}
	for _, m := range tm {
		KB.Consts = append(KB.Consts, Const{m.name, m.value})
	}
	ea.Decls = append(ea.Decls, KA)
	eb.Decls = append(eb.Decls, KB)
	tval := map[string]string{}
	for _, m := range tm {
		tval[m.name] = m.value
	}
	sval := map[string]string{}
	for _, m := range sm {
		sval[m.name] = m.value
	}
	// configuration
	var methLines []string
	enumMap := map[string]string{}
	var transforms [][2]string
	mustFail := ""
	if nameMode == "prefix" {
		pat, repl := "^"+sp+"(\\w+)$", tp+"$1"
		if multi {
			pat, repl = "_(\\w)", "$1"
			c.Feature("multimatch", "true")
		}
		transforms = append(transforms, [2]string{pat, repl})
		methLines = append(methLines, "enum:transform regex "+pat+" "+repl)
	}
	if nameMode == "custom" {
		transforms = append(transforms, [2]string{"^" + sp, ""})
		methLines = append(methLines, "enum:transform trim-prefix "+sp)
		c.Feature("cli", "custom")
	}
	if nameMode == "mapped" {
		for i := 0; i < len(sm); i++ {
			enumMap[sm[i].name] = tp + strings.TrimPrefix(sm[i].name, sp)
		}
	}
	// a transformer overridden by an explicit map (map wins) / a later transformer overriding an earlier one
	if nameMode == "prefix" && r.Intn(2) == 0 && n >= 2 {
		enumMap[sm[1].name] = tm[0].name
		if alias {
			// keep equal-valued members consistent
		}
	}
	if nameMode == "prefix" && r.Intn(3) == 0 {
		transforms = append(transforms, [2]string{"^" + sp + "Green$", tm[0].name})
		methLines = append(methLines, "enum:transform regex ^"+sp+"Green$ "+tm[0].name)
	}
	// one member mapped to an action
	action := ""
	if r.Intn(3) == 0 {
		action = []string{"@ignore", "@error", "@panic"}[r.Intn(3)]
		enumMap[sm[n-1].name] = action
	}
	unknown := []string{"@error", "@panic", "@ignore", "KEY", "KEY"}[r.Intn(5)]
	if unknown == "KEY" {
		unknown = tm[r.Intn(len(tm))].name
	}
	// deliberate faults
	switch r.Intn(14) {
	case 0:
		mustFail = "source member without a target"
		KA.Consts = append(KA.Consts, Const{sp + "Orphan", enumLiteral(sk, 30)})
		sm = append(sm, enumMember{sp + "Orphan", enumLiteral(sk, 30)})
	case 1:
		mustFail = "enum:map key does not exist on the source"
		enumMap["Nope"] = tm[0].name
	case 2:
		mustFail = "enum:map target does not exist"
		enumMap[sm[0].name] = "Nope"
	case 3:
		mustFail = "enum:unknown missing"
		unknown = ""
	case 4:
		mustFail = "enum:unknown names a key that does not exist"
		unknown = "Nope"
	case 5:
		if len(tm) >= 2 {
			// an additional member with the value of the first one but another target: conflict unless the targets' values agree
			KA.Consts = append(KA.Consts, Const{sp + "Twin", sm[0].value})
			sm = append(sm, enumMember{sp + "Twin", sm[0].value})
			enumMap[sp+"Twin"] = tm[1].name
		}
	}
	var mapKeys []string
	for k := range enumMap {
		mapKeys = append(mapKeys, k)
	}
	sort.Strings(mapKeys)
	for _, k := range mapKeys {
		methLines = append(methLines, "enum:map "+k+" "+enumMap[k])
	}
	// resolve (the model)
	pair := &vref.EnumPair{Src: c.Root + "/ea.KA", Tgt: c.Root + "/" + eb.Path + ".KB"}
	needErr := unknown == "@error"
	seenVal := map[string]string{}
	if mustFail == "" {
		for _, m := range sm {
			tn := resolveName(m.name, enumMap, transforms, tval)
			var ec vref.EnumCase
			switch {
			case tn == "@ignore":
				ec = vref.EnumCase{In: literalPlain(m.value), Kind: "zero"}
			case tn == "@error":
				ec = vref.EnumCase{In: literalPlain(m.value), Kind: "error"}
				needErr = true
			case tn == "@panic":
				ec = vref.EnumCase{In: literalPlain(m.value), Kind: "panic"}
			default:
				tv, ok := tval[tn]
				if !ok {
					mustFail = "resolved target " + tn + " does not exist"
					continue
				}
				ec = vref.EnumCase{In: literalPlain(m.value), Kind: "value", Out: literalPlain(tv)}
			}
			key := ec.Kind + ":" + ec.Out
			if prev, dup := seenVal[m.value]; dup {
				if prev != key {
					mustFail = "members with equal values disagree"
				}
				continue
			}
			seenVal[m.value] = key
			pair.Cases = append(pair.Cases, ec)
		}
	}
	switch {
	case unknown == "@error":
		pair.Unknown = vref.EnumCase{Kind: "error"}
	case unknown == "@panic":
		pair.Unknown = vref.EnumCase{Kind: "panic"}
	case unknown == "@ignore":
		pair.Unknown = vref.EnumCase{Kind: "zero"}
	case unknown != "":
		if tv, ok := tval[unknown]; ok {
			pair.Unknown = vref.EnumCase{Kind: "value", Out: literalPlain(tv)}
		} else if mustFail == "" {
			mustFail = "enum:unknown key does not exist"
		}
	}
	// where is enum:unknown written
	var convLines []string
	if unknown != "" {
		switch r.Intn(3) {
		case 0:
			c.Args = append(c.Args, "-g", "enum:unknown "+unknown)
		case 1:
			convLines = append(convLines, "enum:unknown "+unknown)
		default:
			methLines = append([]string{"enum:unknown " + unknown}, methLines...)
			// nested occurrences go through the declared method ME, so the method level is enough
		}
	}
	if mustFail == "" && unexported == "" && sk == tk && r.Intn(6) == 0 {
		// method-level `enum no`: the enum-typed field of the method's own struct is converted like a plain named basic
		// (value preserved), although enum handling stays enabled on the converter
		sd := &Decl{Pkg: ea, Name: "Plain", Under: Struct(F("K", Named(KA)), F("N", Basic("int")))}
		td := &Decl{Pkg: eb, Name: "PlainT", Under: Struct(F("K", Named(KB)), F("N", Basic("int")))}
		ea.Decls = append(ea.Decls, sd)
		eb.Decls = append(eb.Decls, td)
		cv := &Converter{Pkg: conv, File: "conv.go", Name: "Converter", Format: o.Format, OutPkgPath: "conv/generated", OutPkgName: "generated", ImplName: "ConverterImpl"}
		if o.Format == "variables" {
			cv.OutPkgPath, cv.OutPkgName = "conv", "conv"
		}
		cv.Methods = []*Method{{Name: "MP", Params: []Param{{Name: "source", T: Named(sd), Role: "source"}}, Result: Named(td), Lines: []string{"enum no"},
			Spec: &vref.MethodSpec{Name: "MP", Roles: []string{"source"}, Flags: vref.Flags{EnumOff: true}}}}
		nv := o.NValues
		if nv == 0 {
			nv = 40
		}
		cv.Spec = &vref.Spec{Seed: o.Seed, NValues: nv, Monitors: []string{"value"}}
		c.Convs = []*Converter{cv}
		c.Patterns = []string{"./conv"}
		c.Feature("names", "enum-no-on-method")
		c.Feature("kinds", sk+"->"+tk)
		c.Feature("unknown", "")
		c.Feature("format", o.Format)
		return c, ""
	}
	// two exclude lines none of which names KA or KB: one has their package and another type name, the other has their
	// type name and another package (a line is a PACKAGE:NAME pair, lines are alternatives)
	convLines = append(convLines, "enum:exclude "+c.Root+"/ea:Nothing", "enum:exclude "+c.Root+"/eb:Nothing", "enum:exclude "+c.Root+"/nosuchpkg:KA", "enum:exclude "+c.Root+"/nosuchpkg:KB")
	cv := &Converter{Pkg: conv, File: "conv.go", Name: "Converter", Format: o.Format, Lines: convLines, OutPkgPath: "conv/generated", OutPkgName: "generated", ImplName: "ConverterImpl"}
	if o.Format == "variables" {
		cv.OutPkgPath, cv.OutPkgName = "conv", "conv"
	}
	if unexported == "same" {
		// declare the converter inside the enums' package and emit next to it
		cv.Pkg = ea
		if o.Format != "variables" {
			cv.Lines = append(cv.Lines, "output:file ./zz_generated.go")
		}
		cv.OutPkgPath, cv.OutPkgName = "ea", "ea"
		c.Pkgs = []*Package{ea}
	}
	if unexported == "foreign" {
		// members that the output package cannot name: goverter does not even see them when the package is loaded
		// from export data, so the type may or may not count as an enum. Not judged beyond "compiles if generated".
		c.Feature("nojudge", "true")
		mustFail = ""
	}
	c.Feature("unexported", unexported)
	flags := vref.Flags{EnumUnknown: unknown}
	me := &Method{Name: "ME", Params: []Param{{Name: "source", T: Named(KA), Role: "source"}}, Result: Named(KB), HasErr: needErr, Lines: methLines,
		Spec: &vref.MethodSpec{Name: "ME", Roles: []string{"source"}, Flags: flags, HasErr: needErr}}
	cv.Methods = append(cv.Methods, me)
	// composite positions that reuse ME
	if r.Intn(3) != 0 {
		sS := Struct(F("K", Named(KA)), F("L", Slice(Named(KA))), F("M", Map(Basic("string"), Named(KA))), F("P", Ptr(Named(KA))))
		tS := Struct(F("K", Named(KB)), F("L", Slice(Named(KB))), F("M", Map(Basic("string"), Named(KB))), F("P", Ptr(Named(KB))))
		if r.Intn(2) == 0 {
			// a second pair that qualifies as enum but is excluded: its value must be preserved, and the
			// exclusion must not touch KA/KB (same package, other name)
			FA := &Decl{Pkg: ea, Name: "FlagsA", Under: Basic("int"), Consts: []Const{{"FlagA1", "1"}, {"FlagA2", "2"}}}
			FB := &Decl{Pkg: eb, Name: "FlagsB", Under: Basic("int"), Consts: []Const{{"FlagB1", "1"}, {"FlagB4", "4"}}}
			ea.Decls = append(ea.Decls, FA)
			eb.Decls = append(eb.Decls, FB)
			sS.Fields = append(sS.Fields, F("X", Named(FA)), F("XL", Slice(Named(FA))))
			tS.Fields = append(tS.Fields, F("X", Named(FB)), F("XL", Slice(Named(FB))))
			switch r.Intn(3) {
			case 0:
				cv.Lines = append(cv.Lines, "enum:exclude "+c.Root+"/ea:FlagsA")
			case 1:
				cv.Lines = append(cv.Lines, "enum:exclude "+c.Root+"/e.:Flags.")
			default:
				cv.Lines = append(cv.Lines, "enum:exclude "+c.Root+"/"+eb.Path+":FlagsB")
			}
			if r.Intn(2) == 0 {
				// a second, unrelated exclude pattern: patterns are alternatives
				cv.Lines = append(cv.Lines, "enum:exclude "+c.Root+"/nosuchpkg:Nothing")
			}
			c.Feature("exclude", "true")
		}
		if unexported == "" && r.Intn(2) == 0 {
			// the SAME enum type on both sides under skipCopySameType: the value is passed through, members or not
			sS.Fields = append(sS.Fields, F("Same", Named(KA)), F("SameL", Slice(Named(KA))))
			tS.Fields = append(tS.Fields, F("Same", Named(KA)), F("SameL", Slice(Named(KA))))
			cv.Lines = append(cv.Lines, "skipCopySameType")
			flags.SkipCopy = true
			me.Spec.Flags.SkipCopy = true
			c.Feature("sametype", "skipcopy")
		}
		if sk == "string" || sk == "int" || sk == "uint8" || sk == "int32" {
			// enum as map key (injective on members only: keys are restricted to members by the value generator? no: keep value position only)
		}
		sd := &Decl{Pkg: ea, Name: "Holder", Under: sS}
		td := &Decl{Pkg: eb, Name: "HolderT", Under: tS}
		ea.Decls = append(ea.Decls, sd)
		eb.Decls = append(eb.Decls, td)
		cv.Methods = append(cv.Methods, &Method{Name: "MS", Params: []Param{{Name: "source", T: Named(sd), Role: "source"}}, Result: Named(td), HasErr: needErr,
			Spec: &vref.MethodSpec{Name: "MS", Roles: []string{"source"}, Flags: flags, HasErr: needErr}})
		c.Feature("composite", "true")
	}
	nv := o.NValues
	if nv == 0 {
		nv = 40
	}
	enums := map[string]*vref.EnumSpec{}
	mk := func(ms []enumMember) *vref.EnumSpec {
		es := &vref.EnumSpec{Members: map[string]any{}}
		for _, m := range ms {
			es.Members[m.name] = literalPlain(m.value)
			es.Order = append(es.Order, m.name)
		}
		return es
	}
	enums[pair.Src] = mk(sm)
	enums[pair.Tgt] = mk(tm)
	cv.Spec = &vref.Spec{Seed: o.Seed, NValues: nv, Monitors: []string{"value"}, Conv: flags, Enums: enums, EnumPairs: []*vref.EnumPair{pair}}
	c.Convs = []*Converter{cv}
	if mustFail == "" && unexported == "" && sk == tk && o.Format != "variables" && (o.Sibling || r.Intn(3) == 0) {
		// a sibling converter of the same run that converts the SAME enum types with enum handling switched off
		// (enum no / enum:exclude): its values are preserved, and whichever of the two converters is built first
		// must not decide for the other whether KA/KB are enums (converters are processed in name order)
		sd := &Decl{Pkg: ea, Name: "Plain", Under: Struct(F("K", Named(KA)), F("N", Basic("int")), F("L", Slice(Named(KA))))}
		td := &Decl{Pkg: eb, Name: "PlainT", Under: Struct(F("K", Named(KB)), F("N", Basic("int")), F("L", Slice(Named(KB))))}
		ea.Decls = append(ea.Decls, sd)
		eb.Decls = append(eb.Decls, td)
		sibName := []string{"AConv", "ZConv"}[r.Intn(2)]
		sibLine := []string{"enum no", "enum:exclude " + c.Root + "/ea:KA", "enum:exclude " + c.Root + "/e.:K."}[r.Intn(3)]
		sib := &Converter{Pkg: conv, File: "conv.go", Name: sibName, Format: o.Format, Lines: []string{sibLine}, OutPkgPath: cv.OutPkgPath, OutPkgName: cv.OutPkgName, ImplName: sibName + "Impl"}
		mn := sibName[:1] + "P"
		sib.Methods = []*Method{{Name: mn, Params: []Param{{Name: "source", T: Named(sd), Role: "source"}}, Result: Named(td),
			Spec: &vref.MethodSpec{Name: mn, Roles: []string{"source"}, Flags: vref.Flags{EnumOff: true}}}}
		sib.Spec = &vref.Spec{Seed: o.Seed + 1, NValues: nv, Monitors: []string{"value"}, Conv: vref.Flags{EnumOff: true}}
		if sibName == "AConv" {
			c.Convs = []*Converter{sib, cv}
		} else {
			c.Convs = append(c.Convs, sib)
		}
		c.Feature("sibling", sibName+":"+strings.Fields(sibLine)[0])
	}
	c.Patterns = []string{"./" + cv.Pkg.Path}
	c.Feature("names", nameMode)
	c.Feature("kinds", sk+"->"+tk)
	c.Feature("unknown", unknownClass(unknown))
	c.Feature("alias", fmt.Sprint(alias))
	c.Feature("action", action)
	c.Feature("format", o.Format)
	c.Feature("samepkg", fmt.Sprint(samePkg))
	if strings.HasPrefix(unknown, "@error") || strings.HasPrefix(unknown, "@panic") || action == "@error" || action == "@panic" {
		c.AllowImports = []string{"fmt"}
	}
	c.Note = strings.Join(methLines, "; ")
	return c, mustFail
}

func unknownClass(u string) string {
	if u == "" || strings.HasPrefix(u, "@") {
		return u
	}
	return "KEY"
}

// resolveName is the documented resolution: enum:map, else transformers (later wins), else the same name.
func resolveName(name string, enumMap map[string]string, transforms [][2]string, targets map[string]string) string {
	if t, ok := enumMap[name]; ok {
		return t
	}
	res := ""
	for _, tr := range transforms {
		re := regexp.MustCompile(tr[0])
		cand := re.ReplaceAllString(name, tr[1])
		if _, ok := targets[cand]; ok {
			res = cand
		}
	}
	if res != "" {
		return res
	}
	return name
}

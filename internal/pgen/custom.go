package pgen

import (
	"fmt"
	"math/rand"
	"strings"

	"verif/vref"
)

// CustomOpts configures the custom-function corpus (C06, C07).
type CustomOpts struct {
	Format    string // struct | function | variables
	Seed      int64
	NValues   int
	WrapMode  string // none | wrapErrors | using
	WrapLevel string // cli | conv
	Fallible  bool   // force at least one fallible hook
	MaxFaults int
	// ForceKind, when set, is the hook kind of the first pair (all kinds appear in every corpus that way); the
	// pseudo kinds extendUnexported / extendUnexportedCtx need Format "variables"
	ForceKind string
}

// HookKinds lists every hook kind (for ForceKind), pseudo kinds included.
func HookKinds() []string {
	return append(append([]string{}, hookKinds...), "extendUnexported", "extendUnexportedCtx")
}

var hookKinds = []string{"extend", "extendExt", "extendErr", "extendCtx", "extendConv", "extendRegex", "method", "methodErr", "mapFunc", "mapFuncErr", "mapNoSource", "underlying", "underlyingMethod", "extendErrCtx", "extendSame", "extendExtCtxRegex", "delegate", "delegateErr", "mapWhole", "mapWholePtr", "underlyingErr", "basicErr", "srcMethodCtx", "srcMethodErr", "dualCtx", "underlyingSame", "sameBasic"}

// CustomCase builds one case mixing automatic rules with custom functions.
func CustomCase(r *rand.Rand, name string, o CustomOpts) *Case {
	c := &Case{Name: name, Root: "vcase/" + name}
	ty := &Package{Path: "ty", Name: "ty"}
	conv := &Package{Path: "conv", Name: "conv", Files: map[string]string{}}
	ext := &Package{Path: "ext", Name: "ext", Files: map[string]string{}}
	ext2 := &Package{Path: "more/ext", Name: "ext", Files: map[string]string{}}
	c.Pkgs = []*Package{ty, conv, ext}
	var funcsExt2 strings.Builder
	sameType := false
	decl := func(name string, under *Type) *Decl {
		d := &Decl{Pkg: ty, Name: name, Under: under}
		ty.Decls = append(ty.Decls, d)
		return d
	}
	ctxA := decl("CtxA", Struct(F("ID", Basic("string"))))
	ctxB := decl("CtxB", Struct(F("ID", Basic("string"))))
	ctxD := decl("CtxD", Struct(F("ID", Basic("string"))))
	decl("CtxNever", Struct(F("ID", Basic("string"))))
	needCtxD := false
	sS := &Type{K: KStruct}
	tS := &Type{K: KStruct}
	S := decl("S", sS)
	T := decl("T", tS)
	var convLines, methLines []string
	var funcsLocal, funcsExt strings.Builder
	var specFuncs []*vref.FuncSpec
	callables := map[string]string{}
	fields := map[string]vref.FieldSpec{}
	var declared []*Method
	needCtxA, needCtxB, fallible, underlying := false, false, false, false
	underlyingSame := false
	sameBasicDone := false
	useZero := false
	tyMethods := ""
	underlyingFlag := false
	kindsUsed := map[string]bool{}
	npairs := 1 + r.Intn(3)
	for i := 1; i <= npairs; i++ {
		kind := hookKinds[r.Intn(len(hookKinds))]
		forcePriv, forcePrivCtx := false, false
		if o.ForceKind != "" && i == 1 {
			kind = o.ForceKind
			switch kind {
			case "extendUnexported":
				kind, forcePriv = "extend", true
			case "extendUnexportedCtx":
				kind, forcePriv, forcePrivCtx = "extend", true, true
			}
		} else if o.Fallible && i == 1 {
			kind = []string{"extendErr", "methodErr", "mapFuncErr", "extendErrCtx", "delegateErr", "underlyingErr", "basicErr", "srcMethodCtx", "srcMethodErr", "dualCtx"}[r.Intn(7)]
		}
		if o.WrapLevel == "meth" {
			// wrapping configured on the METHOD: only positions that are converted inline by that method
			kind = []string{"basicErr", "mapFuncErr", "basicErr"}[r.Intn(3)]
		}
		if kind == "extendConv" && o.Format != "struct" {
			kind = "extend"
		}
		kindsUsed[kind] = true
		ha := decl(fmt.Sprintf("HA%d", i), Struct(F("V", Basic("int")), F("Tag", Basic("string"))))
		hb := decl(fmt.Sprintf("HB%d", i), Struct(F("V", Basic("int")), F("Tag", Basic("string"))))
		hookBody := func(fname, extra string) string {
			return fmt.Sprintf("ty.HB%d{V: a.V + %d, Tag: a.Tag + \"|%s\"%s}", i, 1000*i, fname, extra)
		}
		failStmt := fmt.Sprintf("\tif err := vref.Fail(int64(a.V)); err != nil {\n\t\treturn ty.HB%d{}, err\n\t}\n", i)
		switch kind {
		case "extend", "extendExt", "extendErr", "extendCtx", "extendConv", "extendRegex", "extendErrCtx", "extendSame", "extendExtCtxRegex", "dualCtx":
			fname := fmt.Sprintf("Ext%d", i)
			if kind == "extendRegex" {
				fname = fmt.Sprintf("Hook%dRx", i)
			}
			sb := &funcsLocal
			qual := "conv."
			line := "extend " + fname
			if kind == "extendExt" {
				sb = &funcsExt
				qual = "ext."
				line = "extend " + c.Root + "/ext:" + fname
			}
			if kind == "extendRegex" {
				line = fmt.Sprintf("extend Hook%d.*", i)
				if r.Intn(2) == 0 {
					// alternatives: the whole name has to match ANY of them (the first one is a proper prefix)
					line = fmt.Sprintf("extend Hook%d|Hook%dRx", i, i)
				}
			}
			roles := []string{"source"}
			switch kind {
			case "extendSame":
				// an extend function for a pair of IDENTICAL types: it must win over skipCopySameType
				hb = ha
				fmt.Fprintf(sb, "func %s(a ty.HA%d) ty.HA%d {\n\treturn ty.HA%d{V: a.V + %d, Tag: a.Tag + \"|%s\"}\n}\n\n", fname, i, i, i, 1000*i, fname)
				sameType = true
			case "extendExtCtxRegex":
				// a context-taking function in a second package that is also NAMED ext, selected by a regular expression;
				// the first ext package contributes an unrelated function so that both packages are scanned
				fname = fmt.Sprintf("Far%dHook", i)
				sb = &funcsExt2
				qual = "ext2."
				line = fmt.Sprintf("extend %s/more/ext:Far%d.*", c.Root, i)
				fmt.Fprintf(sb, "// goverter:context ctx\nfunc %s(a ty.HA%d, ctx ty.CtxA) ty.HB%d {\n\treturn %s\n}\n\n", fname, i, i, hookBody(fname, " + \"|\" + ctx.ID"))
				fmt.Fprintf(&funcsExt, "// Near%d is unrelated; its parameter ctx is its source.\nfunc Near%d(ctx ty.CtxB) ty.CtxB { return ctx }\n\n", i, i)
				convLines = append(convLines, fmt.Sprintf("extend %s/ext:Near%d", c.Root, i))
				needCtxA = true
				roles = []string{"source", "ctx"}
			case "dualCtx":
				// two functions for the same pair with disjoint contexts: the one whose context nobody supplies is
				// registered first, the other one has to be used
				fmt.Fprintf(sb, "// goverter:context c\nfunc Never%d(a ty.HA%d, c ty.CtxNever) ty.HB%d {\n\treturn ty.HB%d{V: -7, Tag: \"NEVER\"}\n}\n\n", i, i, i, i)
				fmt.Fprintf(sb, "// goverter:context c\nfunc %s(a ty.HA%d, c ty.CtxD) ty.HB%d {\n\treturn %s\n}\n\n", fname, i, i, hookBody(fname, " + \"|\" + c.ID"))
				convLines = append(convLines, fmt.Sprintf("extend Never%d", i))
				needCtxD = true
				roles = []string{"source", "ctx"}
			case "extendErr":
				fmt.Fprintf(sb, "func %s(a ty.HA%d) (ty.HB%d, error) {\n%s\treturn %s, nil\n}\n\n", fname, i, i, failStmt, hookBody(fname, ""))
				fallible = true
			case "extendErrCtx":
				fmt.Fprintf(sb, "// goverter:context ctx\nfunc %s(a ty.HA%d, ctx ty.CtxB) (ty.HB%d, error) {\n%s\treturn %s, nil\n}\n\n", fname, i, i, failStmt, hookBody(fname, " + \"|\" + ctx.ID"))
				fallible, needCtxB = true, true
				roles = []string{"source", "ctx"}
			case "extendCtx":
				if o.Format == "variables" && r.Intn(2) == 0 {
					// unexported function of the output package with a context declared in its doc comment
					priv := "ext" + fname[3:] + "ctxpriv"
					fmt.Fprintf(sb, "// goverter:context ctx\nfunc %s(ctx ty.CtxA, a ty.HA%d) ty.HB%d {\n\treturn %s\n}\n\nfunc %s(ctx ty.CtxA, a ty.HA%d) ty.HB%d { return %s(ctx, a) }\n\n", priv, i, i, hookBody(priv, " + \"|\" + ctx.ID"), fname, i, i, priv)
					line = "extend " + priv
					kindsUsed["extendUnexportedCtx"] = true
					needCtxA = true
					roles = []string{"ctx", "source"}
					break
				}
				fmt.Fprintf(sb, "// goverter:context ctx\nfunc %s(ctx ty.CtxA, a ty.HA%d) ty.HB%d {\n\treturn %s\n}\n\n", fname, i, i, hookBody(fname, " + \"|\" + ctx.ID"))
				needCtxA = true
				roles = []string{"ctx", "source"}
			case "extendConv":
				fmt.Fprintf(sb, "func %s(c Converter, a ty.HA%d) ty.HB%d {\n\t_ = c\n\treturn %s\n}\n\n", fname, i, i, hookBody(fname, ""))
				roles = []string{"conv", "source"}
			default:
				if kind == "extend" && o.Format == "variables" && (forcePriv || r.Intn(2) == 0) {
					if forcePrivCtx || (!forcePriv && r.Intn(2) == 0) {
						// ... with a context declared in its doc comment
						priv := "ext" + fname[3:] + "ctxpriv"
						fmt.Fprintf(sb, "// goverter:context ctx\nfunc %s(ctx ty.CtxA, a ty.HA%d) ty.HB%d {\n\treturn %s\n}\n\nfunc %s(ctx ty.CtxA, a ty.HA%d) ty.HB%d { return %s(ctx, a) }\n\n", priv, i, i, hookBody(priv, " + \"|\" + ctx.ID"), fname, i, i, priv)
						line = "extend " + priv
						kindsUsed["extendUnexportedCtx"] = true
						needCtxA = true
						roles = []string{"ctx", "source"}
						break
					}
					// an UNEXPORTED function of the output package (the variables format emits into conv): accessible;
					// the glue reaches it through an exported wrapper
					priv := "ext" + fname[3:] + "priv"
					fmt.Fprintf(sb, "func %s(a ty.HA%d) ty.HB%d {\n\treturn %s\n}\n\nfunc %s(a ty.HA%d) ty.HB%d { return %s(a) }\n\n", priv, i, i, hookBody(priv, ""), fname, i, i, priv)
					line = "extend " + priv
					kindsUsed["extendUnexported"] = true
					break
				}
				fmt.Fprintf(sb, "func %s(a ty.HA%d) ty.HB%d {\n\treturn %s\n}\n\n", fname, i, i, hookBody(fname, ""))
				if kind == "extendRegex" {
					// look-alikes that the pattern Hook<i>.* must not select (the match has to cover the whole name)
					fmt.Fprintf(sb, "func Un%s(a ty.HA%d) ty.HB%d {\n\treturn ty.HB%d{V: -1, Tag: \"DECOY\"}\n}\n\n", fname, i, i, i)
					fmt.Fprintf(sb, "func XHook%d(a ty.HA%d) ty.HB%d {\n\treturn ty.HB%d{V: -2, Tag: \"DECOY\"}\n}\n\n", i, i, i, i)
				}
			}
			convLines = append(convLines, line)
			key := "fn:" + fname
			specFuncs = append(specFuncs, &vref.FuncSpec{Key: key, Kind: "extend", Roles: roles})
			callables[key] = qual + fname
		case "delegate", "delegateErr":
			// a declared method AND an extend function for the same pair: the function wins everywhere and the
			// method itself delegates to it
			fname := fmt.Sprintf("Del%d", i)
			mname := fmt.Sprintf("MD%d", i)
			m := &Method{Name: mname, Params: []Param{{Name: "source", T: Named(ha), Role: "source"}}, Result: Named(hb)}
			ms := &vref.MethodSpec{Name: mname, Roles: []string{"source"}, Fields: map[string]vref.FieldSpec{}}
			if kind == "delegateErr" {
				fmt.Fprintf(&funcsLocal, "func %s(a ty.HA%d) (ty.HB%d, error) {\n%s\treturn %s, nil\n}\n\n", fname, i, i, failStmt, hookBody(fname, ""))
				m.HasErr, ms.HasErr = true, true
				fallible = true
			} else {
				fmt.Fprintf(&funcsLocal, "func %s(a ty.HA%d) ty.HB%d {\n\treturn %s\n}\n\n", fname, i, i, hookBody(fname, ""))
				if r.Intn(2) == 0 {
					// the method may still declare an error result: it then returns nil
					m.HasErr, ms.HasErr = true, true
				}
			}
			m.Spec = ms
			declared = append(declared, m)
			convLines = append(convLines, "extend "+fname)
			specFuncs = append(specFuncs, &vref.FuncSpec{Key: "fn:" + fname, Kind: "extend", Roles: []string{"source"}})
			callables["fn:"+fname] = "conv." + fname
		case "method", "methodErr":
			mname := fmt.Sprintf("MH%d", i)
			m := &Method{Name: mname, Params: []Param{{Name: "source", T: Named(ha), Role: "source"}}, Result: Named(hb)}
			ms := &vref.MethodSpec{Name: mname, Roles: []string{"source"}, Fields: map[string]vref.FieldSpec{}}
			if kind == "methodErr" {
				// the declared method's own conversion contains a fallible map function
				fn := fmt.Sprintf("FailV%d", i)
				fmt.Fprintf(&funcsLocal, "func %s(v int) (int, error) {\n\tif err := vref.Fail(int64(v)); err != nil {\n\t\treturn 0, err\n\t}\n\treturn v + %d, nil\n}\n\n", fn, 7000*i)
				m.Lines = append(m.Lines, "map V V | "+fn)
				m.HasErr = true
				ms.HasErr = true
				ms.Fields["V"] = vref.FieldSpec{Path: []string{"V"}, Func: "fn:" + fn}
				specFuncs = append(specFuncs, &vref.FuncSpec{Key: "fn:" + fn, Kind: "map", Roles: []string{"source"}})
				callables["fn:"+fn] = "conv." + fn
				fallible = true
			} else {
				m.Lines = append(m.Lines, "ignore Tag")
				ms.Fields["Tag"] = vref.FieldSpec{Ignore: true}
			}
			m.Spec = ms
			declared = append(declared, m)
		case "mapFunc", "mapFuncErr":
			// no pair override: a computed target field instead
			fn := fmt.Sprintf("Fmt%d", i)
			sf, tf := fmt.Sprintf("C%dIn", i), fmt.Sprintf("C%dOut", i)
			sS.Fields = append(sS.Fields, F(sf, Basic("int")))
			tS.Fields = append(tS.Fields, F(tf, Basic("string")))
			if kind == "mapFuncErr" {
				fmt.Fprintf(&funcsLocal, "func %s(v int) (string, error) {\n\tif err := vref.Fail(int64(v)); err != nil {\n\t\treturn \"\", err\n\t}\n\treturn fmt.Sprintf(\"%s:%%d\", v), nil\n}\n\n", fn, fn)
				fallible = true
			} else {
				fmt.Fprintf(&funcsLocal, "func %s(v int) string { return fmt.Sprintf(\"%s:%%d\", v) }\n\n", fn, fn)
			}
			methLines = append(methLines, fmt.Sprintf("map %s %s | %s", sf, tf, fn))
			fields[tf] = vref.FieldSpec{Path: []string{sf}, Func: "fn:" + fn}
			specFuncs = append(specFuncs, &vref.FuncSpec{Key: "fn:" + fn, Kind: "map", Roles: []string{"source"}})
			callables["fn:"+fn] = "conv." + fn
		case "basicErr":
			// a fallible extend function between named BASIC types, also used where the target is a pointer to the basic
			// (the T -> *U rule wraps the call)
			bs := decl(fmt.Sprintf("BS%d", i), Basic("string"))
			bt := decl(fmt.Sprintf("BT%d", i), Basic("string"))
			fn := fmt.Sprintf("BConv%d", i)
			fmt.Fprintf(&funcsLocal, "func %s(v ty.BS%d) (ty.BT%d, error) {\n\tvar id int64\n\tfmt.Sscanf(string(v), \"s%%d\", &id)\n\tif err := vref.Fail(id); err != nil {\n\t\treturn \"\", err\n\t}\n\treturn ty.BT%d(\"b<\" + string(v) + \">\"), nil\n}\n\n", fn, i, i, i)
			convLines = append(convLines, "extend "+fn)
			specFuncs = append(specFuncs, &vref.FuncSpec{Key: "fn:" + fn, Kind: "extend", Roles: []string{"source"}})
			callables["fn:"+fn] = "conv." + fn
			fallible = true
			bpos := []string{"V", "P", "LP", "MP", "L", "PP", "SP", "LSP", "MSP"}
			r.Shuffle(len(bpos), func(a, b int) { bpos[a], bpos[b] = bpos[b], bpos[a] })
			for _, bp := range bpos[:1+r.Intn(3)] {
				f := fmt.Sprintf("B%s%d", bp, i)
				switch bp {
				case "V":
					sS.Fields, tS.Fields = append(sS.Fields, F(f, Named(bs))), append(tS.Fields, F(f, Named(bt)))
				case "P":
					sS.Fields, tS.Fields = append(sS.Fields, F(f, Named(bs))), append(tS.Fields, F(f, Ptr(Named(bt))))
				case "LP":
					sS.Fields, tS.Fields = append(sS.Fields, F(f, Slice(Named(bs)))), append(tS.Fields, F(f, Slice(Ptr(Named(bt)))))
				case "MP":
					sS.Fields, tS.Fields = append(sS.Fields, F(f, Map(Basic("string"), Named(bs)))), append(tS.Fields, F(f, Map(Basic("string"), Ptr(Named(bt)))))
				case "L":
					sS.Fields, tS.Fields = append(sS.Fields, F(f, Slice(Named(bs)))), append(tS.Fields, F(f, Slice(Named(bt))))
				case "PP":
					sS.Fields, tS.Fields = append(sS.Fields, F(f, Ptr(Named(bs)))), append(tS.Fields, F(f, Ptr(Named(bt))))
				case "SP":
					// *T -> U positions need useZeroValueOnPointerInconsistency
					sS.Fields, tS.Fields = append(sS.Fields, F(f, Ptr(Named(bs)))), append(tS.Fields, F(f, Named(bt)))
					useZero = true
				case "LSP":
					sS.Fields, tS.Fields = append(sS.Fields, F(f, Slice(Ptr(Named(bs))))), append(tS.Fields, F(f, Slice(Named(bt))))
					useZero = true
				case "MSP":
					sS.Fields, tS.Fields = append(sS.Fields, F(f, Map(Basic("string"), Ptr(Named(bs))))), append(tS.Fields, F(f, Map(Basic("string"), Named(bt))))
					useZero = true
				}
			}
		case "srcMethodErr":
			// a fallible method of the source struct used as the source of a target field (getter with error)
			mn := fmt.Sprintf("Get%d", i)
			tyMethods += fmt.Sprintf("func (s S) %s() (int, error) {\n\tif err := vref.Fail(int64(s.Plain)*1000 + %d); err != nil {\n\t\treturn 0, err\n\t}\n\treturn s.Plain*10 + %d, nil\n}\n\n", mn, 900+i, i)
			if r.Intn(2) == 0 {
				tS.Fields = append(tS.Fields, F(mn, Basic("int")))
				fields[mn] = vref.FieldSpec{Path: []string{mn}}
			} else {
				tf := fmt.Sprintf("From%s", mn)
				tS.Fields = append(tS.Fields, F(tf, Basic("int")))
				methLines = append(methLines, "map "+mn+" "+tf)
				fields[tf] = vref.FieldSpec{Path: []string{mn}}
			}
			fallible = true
		case "srcMethodCtx":
			// a method of the source struct whose parameters are contexts, used as the source of a target field
			mn := fmt.Sprintf("Disp%d", i)
			param := "c CtxA"
			if r.Intn(2) == 0 {
				param = "CtxA" // unnamed parameter
			}
			use := ""
			if strings.HasPrefix(param, "c ") {
				use = " + len(c.ID)"
			}
			S.Methods = append(S.Methods, fmt.Sprintf("func (s S) %s(%s) int { return s.Plain*10 + %d%s }", mn, param, i, use))
			if r.Intn(2) == 0 {
				tS.Fields = append(tS.Fields, F(mn, Basic("int")))
				fields[mn] = vref.FieldSpec{Path: []string{mn}}
			} else {
				tf := fmt.Sprintf("From%s", mn)
				tS.Fields = append(tS.Fields, F(tf, Basic("int")))
				methLines = append(methLines, "map "+mn+" "+tf)
				fields[tf] = vref.FieldSpec{Path: []string{mn}}
			}
			needCtxA = true
		case "mapWhole":
			// map . FIELD | FUNC: the function receives the whole source value
			fn := fmt.Sprintf("Whole%d", i)
			tf := fmt.Sprintf("W%dOut", i)
			tS.Fields = append(tS.Fields, F(tf, Basic("string")))
			fmt.Fprintf(&funcsLocal, "func %s(s ty.S) string { return fmt.Sprintf(\"%s:%%d\", s.Plain) }\n\n", fn, fn)
			methLines = append(methLines, fmt.Sprintf("map . %s | %s", tf, fn))
			fields[tf] = vref.FieldSpec{Path: []string{"."}, Func: "fn:" + fn}
			specFuncs = append(specFuncs, &vref.FuncSpec{Key: "fn:" + fn, Kind: "map", Roles: []string{"source"}})
			callables["fn:"+fn] = "conv." + fn
		case "mapWholePtr":
			// a method from *PS to *PT whose function takes the source POINTER: it receives the original pointer
			fn := fmt.Sprintf("WholeP%d", i)
			ps := decl(fmt.Sprintf("PS%d", i), Struct(F("A", Basic("int")), F("B", Basic("string"))))
			pt := decl(fmt.Sprintf("PT%d", i), Struct(F("A", Basic("int")), F("B", Basic("string")), F("Full", Basic("string"))))
			fmt.Fprintf(&funcsLocal, "func %s(s *ty.PS%d) string { return fmt.Sprintf(\"%s:%%d:%%s\", s.A, s.B) }\n\n", fn, i, fn)
			mname := fmt.Sprintf("MPW%d", i)
			dm := &Method{Name: mname, Params: []Param{{Name: "source", T: Ptr(Named(ps)), Role: "source"}}, Result: Ptr(Named(pt)), Lines: []string{fmt.Sprintf("map . Full | %s", fn)},
				Spec: &vref.MethodSpec{Name: mname, Roles: []string{"source"}, Fields: map[string]vref.FieldSpec{"Full": {Path: []string{"."}, Func: "fn:" + fn}}}}
			declared = append(declared, dm)
			specFuncs = append(specFuncs, &vref.FuncSpec{Key: "fn:" + fn, Kind: "map", Roles: []string{"source"}})
			callables["fn:"+fn] = "conv." + fn
			f := fmt.Sprintf("PW%d", i)
			sS.Fields = append(sS.Fields, F(f, Ptr(Named(ps))))
			tS.Fields = append(tS.Fields, F(f, Ptr(Named(pt))))
		case "mapNoSource":
			fn := fmt.Sprintf("Make%d", i)
			tf := fmt.Sprintf("G%dOut", i)
			tS.Fields = append(tS.Fields, F(tf, Basic("string")))
			if r.Intn(2) == 0 {
				fmt.Fprintf(&funcsLocal, "// goverter:context ctx\nfunc %s(ctx ty.CtxA) string { return \"%s|\" + ctx.ID }\n\n", fn, fn)
				needCtxA = true
				specFuncs = append(specFuncs, &vref.FuncSpec{Key: "fn:" + fn, Kind: "map", Roles: []string{"ctx"}})
			} else {
				fmt.Fprintf(&funcsLocal, "func %s() string { return \"%s\" }\n\n", fn, fn)
				specFuncs = append(specFuncs, &vref.FuncSpec{Key: "fn:" + fn, Kind: "map", Roles: []string{}})
			}
			methLines = append(methLines, fmt.Sprintf("map %s | %s", tf, fn))
			fields[tf] = vref.FieldSpec{Func: "fn:" + fn, NoSource: true}
			callables["fn:"+fn] = "conv." + fn
		case "underlyingMethod":
			// a declared method for the underlying (unnamed struct) types must be used for the named pair
			shape := func() *Type {
				return Struct(F("V", Basic("int")), F("Tag", Basic("string")), F(fmt.Sprintf("K%d", i), Basic("int")))
			}
			// the target shape has one field more, so that the two unnamed types are never identical (an identical
			// pair would be passed through under skipCopySameType and field settings on it are an error)
			shapeT := func() *Type {
				t := shape()
				t.Fields = append(t.Fields, F("TOnly", Basic("bool")))
				return t
			}
			su := decl(fmt.Sprintf("SU%d", i), shape())
			tu := decl(fmt.Sprintf("TU%d", i), shapeT())
			mname := fmt.Sprintf("MU%d", i)
			dm := &Method{Name: mname, Params: []Param{{Name: "source", T: shape(), Role: "source"}}, Result: shapeT(), Lines: []string{"ignore Tag TOnly"},
				Spec: &vref.MethodSpec{Name: mname, Roles: []string{"source"}, Fields: map[string]vref.FieldSpec{"Tag": {Ignore: true}, "TOnly": {Ignore: true}}}}
			declared = append(declared, dm)
			f := fmt.Sprintf("UM%d", i)
			sS.Fields = append(sS.Fields, F(f, Named(su)), F(f+"L", Slice(Named(su))))
			tS.Fields = append(tS.Fields, F(f, Named(tu)), F(f+"L", Slice(Named(tu))))
			underlyingFlag = true
		case "underlyingSame":
			// the SAME named basic on both sides: the function for its underlying types still has to be used
			nf := decl(fmt.Sprintf("NF%d", i), Basic("float32"))
			fn := fmt.Sprintf("F32Stamp%d", i)
			if !underlyingSame {
				underlyingSame = true
				fmt.Fprintf(&funcsLocal, "func %s(v float32) float32 { return v + 4096 }\n\n", fn)
				convLines = append(convLines, "extend "+fn)
				specFuncs = append(specFuncs, &vref.FuncSpec{Key: "fn:" + fn, Kind: "extend", Roles: []string{"source"}})
				callables["fn:"+fn] = "conv." + fn
				underlyingFlag = true
				f := fmt.Sprintf("NS%d", i)
				sS.Fields = append(sS.Fields, F(f, Named(nf)), F(f+"L", Slice(Named(nf))), F(f+"P", Ptr(Named(nf))))
				tS.Fields = append(tS.Fields, F(f, Named(nf)), F(f+"L", Slice(Named(nf))), F(f+"P", Ptr(Named(nf))))
			}
		case "sameBasic":
			// an extend function between one and the same predeclared type: it is used wherever that type is
			// converted - fields, elements, pointees, map values AND map keys (xor is a bijection: keys stay distinct)
			fn := fmt.Sprintf("I16Stamp%d", i)
			if !sameBasicDone {
				sameBasicDone = true
				fmt.Fprintf(&funcsLocal, "func %s(v int16) int16 { return v ^ 0x5555 }\n\n", fn)
				convLines = append(convLines, "extend "+fn)
				specFuncs = append(specFuncs, &vref.FuncSpec{Key: "fn:" + fn, Kind: "extend", Roles: []string{"source"}})
				callables["fn:"+fn] = "conv." + fn
				f := fmt.Sprintf("SB%d", i)
				sbpos := []string{"V", "L", "K", "MV", "P", "KK"}
				r.Shuffle(len(sbpos), func(a, b int) { sbpos[a], sbpos[b] = sbpos[b], sbpos[a] })
				for _, bp := range append([]string{"K"}, sbpos[:1+r.Intn(3)]...) {
					var ft *Type
					switch bp {
					case "V":
						ft = Basic("int16")
					case "L":
						ft = Slice(Basic("int16"))
					case "K":
						ft = Map(Basic("int16"), Basic("string"))
					case "MV":
						ft = Map(Basic("string"), Basic("int16"))
					case "P":
						ft = Ptr(Basic("int16"))
					default:
						ft = Map(Basic("int16"), Map(Basic("int16"), Slice(Basic("int16"))))
					}
					dup := false
					for _, ef := range sS.Fields {
						if ef.Name == f+bp {
							dup = true
						}
					}
					if dup {
						continue
					}
					sS.Fields = append(sS.Fields, F(f+bp, ft))
					tS.Fields = append(tS.Fields, F(f+bp, ft))
				}
			}
		case "underlying", "underlyingErr":
			sid := decl(fmt.Sprintf("SID%d", i), Basic("int"))
			tid := decl(fmt.Sprintf("TID%d", i), Basic("string"))
			fn := fmt.Sprintf("IntToStr%d", i)
			if !underlying {
				if kind == "underlyingErr" {
					// fallible function on the underlying types, also reached by a declared method for the named pair
					fmt.Fprintf(&funcsLocal, "func %s(v int) (string, error) {\n\tif err := vref.Fail(int64(v)); err != nil {\n\t\treturn \"\", err\n\t}\n\treturn fmt.Sprintf(\"%s:%%d\", v), nil\n}\n\n", fn, fn)
					fallible = true
					mname := fmt.Sprintf("MUE%d", i)
					if r.Intn(2) == 0 {
						// no declared method: the field position converts the pair inline
						mname = ""
					}
					if mname != "" {
						declared = append(declared, &Method{Name: mname, Params: []Param{{Name: "source", T: Named(sid), Role: "source"}}, Result: Named(tid), HasErr: true,
							Spec: &vref.MethodSpec{Name: mname, Roles: []string{"source"}, HasErr: true}})
					}
				} else {
					// the function is declared for both underlying types, or for one underlying and one named type
					switch r.Intn(3) {
					case 0:
						fmt.Fprintf(&funcsLocal, "func %s(v int) string { return fmt.Sprintf(\"%s:%%d\", v) }\n\n", fn, fn)
					case 1:
						fmt.Fprintf(&funcsLocal, "func %s(v int) ty.TID%d { return ty.TID%d(fmt.Sprintf(\"%s:%%d\", v)) }\n\n", fn, i, i, fn)
						kindsUsed["underlyingSrcOnly"] = true
					default:
						fmt.Fprintf(&funcsLocal, "func %s(v ty.SID%d) string { return fmt.Sprintf(\"%s:%%d\", int(v)) }\n\n", fn, i, fn)
						kindsUsed["underlyingTgtOnly"] = true
					}
				}
				convLines = append(convLines, "extend "+fn)
				specFuncs = append(specFuncs, &vref.FuncSpec{Key: "fn:" + fn, Kind: "extend", Roles: []string{"source"}})
				callables["fn:"+fn] = "conv." + fn
				underlying = true
				f := fmt.Sprintf("U%d", i)
				switch r.Intn(3) {
				case 0:
					// one occurrence only: converted inline by the method that has the field
					sS.Fields = append(sS.Fields, F(f, Named(sid)))
					tS.Fields = append(tS.Fields, F(f, Named(tid)))
				case 1:
					sS.Fields = append(sS.Fields, F(f+"L", Slice(Named(sid))))
					tS.Fields = append(tS.Fields, F(f+"L", Slice(Named(tid))))
				default:
					sS.Fields = append(sS.Fields, F(f, Named(sid)), F(f+"L", Slice(Named(sid))))
					tS.Fields = append(tS.Fields, F(f, Named(tid)), F(f+"L", Slice(Named(tid))))
				}
			}
		}
		if strings.HasPrefix(kind, "map") || strings.HasPrefix(kind, "underlying") || kind == "basicErr" || kind == "sameBasic" || strings.HasPrefix(kind, "srcMethod") {
			continue
		}
		// positions of the pair inside S / T
		pos := []string{"D", "L", "M", "P", "N", "LN", "MP", "MK", "MKE", "LL", "MSK", "MA", "PA"}
		r.Shuffle(len(pos), func(a, b int) { pos[a], pos[b] = pos[b], pos[a] })
		for _, p := range pos[:1+r.Intn(3)] {
			f := fmt.Sprintf("%s%d", p, i)
			switch p {
			case "D":
				sS.Fields = append(sS.Fields, F(f, Named(ha)))
				tS.Fields = append(tS.Fields, F(f, Named(hb)))
			case "L":
				sS.Fields = append(sS.Fields, F(f, Slice(Named(ha))))
				tS.Fields = append(tS.Fields, F(f, Slice(Named(hb))))
			case "M":
				sS.Fields = append(sS.Fields, F(f, Map(Basic("string"), Named(ha))))
				tS.Fields = append(tS.Fields, F(f, Map(Basic("string"), Named(hb))))
			case "P":
				sS.Fields = append(sS.Fields, F(f, Ptr(Named(ha))))
				tS.Fields = append(tS.Fields, F(f, Ptr(Named(hb))))
			case "MK":
				// the map key is converted by its own extend function (injective on the generated keys)
				ks := decl(fmt.Sprintf("KS%d", i), Basic("string"))
				kt := decl(fmt.Sprintf("KT%d", i), Basic("string"))
				kf := fmt.Sprintf("KeyConv%d", i)
				fmt.Fprintf(&funcsLocal, "func %s(k ty.KS%d) ty.KT%d { return ty.KT%d(\"key<\" + string(k) + \">\") }\n\n", kf, i, i, i)
				convLines = append(convLines, "extend "+kf)
				specFuncs = append(specFuncs, &vref.FuncSpec{Key: "fn:" + kf, Kind: "extend", Roles: []string{"source"}})
				callables["fn:"+kf] = "conv." + kf
				sS.Fields = append(sS.Fields, F(f, Map(Named(ks), Named(ha))))
				tS.Fields = append(tS.Fields, F(f, Map(Named(kt), Named(hb))))
			case "MA":
				// map whose values are fixed-size arrays (converted to slices)
				sS.Fields = append(sS.Fields, F(f, Map(Basic("string"), Array(2, Named(ha)))))
				tS.Fields = append(tS.Fields, F(f, Map(Basic("string"), Slice(Named(hb)))))
			case "PA":
				// pointer to a fixed-size array
				sS.Fields = append(sS.Fields, F(f, Ptr(Array(2, Named(ha)))))
				tS.Fields = append(tS.Fields, F(f, Ptr(Slice(Named(hb)))))
			case "MSK":
				// a map with a struct key (converted field by field) and the hooked pair as value
				sS.Fields = append(sS.Fields, F(f, Map(Struct(F("A", Basic("int")), F("B", Basic("string"))), Named(ha))))
				tS.Fields = append(tS.Fields, F(f, Map(Struct(F("A", Basic("int")), F("B", Basic("string"))), Named(hb))))
			case "LL":
				// nested unnamed lists: one method sets a field, an outer index and an inner index
				sS.Fields = append(sS.Fields, F(f, Slice(Slice(Named(ha)))))
				tS.Fields = append(tS.Fields, F(f, Slice(Slice(Named(hb)))))
			case "MKE":
				// the map key is converted by a FALLIBLE extend function (its id is the number inside the generated key)
				if !fallible && !o.Fallible {
					sS.Fields = append(sS.Fields, F(f, Named(ha)))
					tS.Fields = append(tS.Fields, F(f, Named(hb)))
					break
				}
				ks := decl(fmt.Sprintf("KES%d", i), Basic("string"))
				kt := decl(fmt.Sprintf("KET%d", i), Basic("string"))
				kf := fmt.Sprintf("KeyConvE%d", i)
				fmt.Fprintf(&funcsLocal, "func %s(k ty.KES%d) (ty.KET%d, error) {\n\tvar id int64\n\tfmt.Sscanf(string(k), \"s%%d\", &id)\n\tif err := vref.Fail(id); err != nil {\n\t\treturn \"\", err\n\t}\n\treturn ty.KET%d(\"key<\" + string(k) + \">\"), nil\n}\n\n", kf, i, i, i)
				convLines = append(convLines, "extend "+kf)
				specFuncs = append(specFuncs, &vref.FuncSpec{Key: "fn:" + kf, Kind: "extend", Roles: []string{"source"}})
				callables["fn:"+kf] = "conv." + kf
				sS.Fields = append(sS.Fields, F(f, Map(Named(ks), Named(ha))))
				tS.Fields = append(tS.Fields, F(f, Map(Named(kt), Named(hb))))
				fallible = true
			case "MP":
				sS.Fields = append(sS.Fields, F(f, Map(Basic("int"), Slice(Ptr(Named(ha))))))
				tS.Fields = append(tS.Fields, F(f, Map(Basic("int"), Slice(Ptr(Named(hb))))))
			case "N", "LN":
				ns := decl(fmt.Sprintf("NestS%d%s", i, p), Struct(F("H", Named(ha)), F("K", Basic("int"))))
				nt := decl(fmt.Sprintf("NestT%d%s", i, p), Struct(F("H", Named(hb)), F("K", Basic("int"))))
				if p == "N" {
					sS.Fields = append(sS.Fields, F(f, Named(ns)))
					tS.Fields = append(tS.Fields, F(f, Named(nt)))
				} else {
					sS.Fields = append(sS.Fields, F(f, Slice(Named(ns))))
					tS.Fields = append(tS.Fields, F(f, Slice(Named(nt))))
				}
			}
		}
	}
	sS.Fields = append(sS.Fields, F("Plain", Basic("int")))
	tS.Fields = append(tS.Fields, F("Plain", Basic("int")))
	if o.WrapLevel != "meth" && r.Intn(3) == 0 {
		sS.Fields = append(sS.Fields, F("Rec", Ptr(Named(S))))
		tS.Fields = append(tS.Fields, F("Rec", Ptr(Named(T))))
		kindsUsed["recursive"] = true
	}
	if o.WrapLevel != "meth" && r.Intn(3) == 0 {
		// mutual recursion through a second struct, placed BEFORE the hooked fields: the helper for the pointer is
		// built before the helper it calls learns that it has to return an error
		ms := decl("MutS", Struct(F("Back", Ptr(Named(S))), F("K", Basic("int"))))
		mt := decl("MutT", Struct(F("Back", Ptr(Named(T))), F("K", Basic("int"))))
		sS.Fields = append([]*Field{F("Mut", Ptr(Named(ms)))}, sS.Fields...)
		tS.Fields = append([]*Field{F("Mut", Ptr(Named(mt)))}, tS.Fields...)
		kindsUsed["mutual"] = true
	}
	flags := vref.Flags{}
	if sameType {
		convLines = append(convLines, "skipCopySameType")
		flags.SkipCopy = true
	}
	if useZero {
		convLines = append(convLines, "useZeroValueOnPointerInconsistency")
		flags.UseZero = true
	}
	if underlying || underlyingFlag {
		convLines = append(convLines, "useUnderlyingTypeMethods")
		flags.UseUnderlying = true
	}
	if o.Fallible && !fallible {
		fallible = true
	}
	// wrap mode
	wm := o.WrapMode
	if !fallible {
		wm = "none"
	}
	wrapLine := ""
	switch wm {
	case "wrapErrors":
		wrapLine = "wrapErrors"
	case "using":
		wrapLine = "wrapErrorsUsing vcase/errs"
	}
	if wrapLine != "" {
		switch o.WrapLevel {
		case "cli":
			c.Args = append(c.Args, "-g", wrapLine)
		case "meth":
			methLines = append(methLines, wrapLine)
		default:
			convLines = append(convLines, wrapLine)
		}
	}
	// outer method(s)
	params := []Param{{Name: "source", T: Named(S), Role: "source"}}
	roles := []string{"source"}
	addCtx := func(nm string, d *Decl) {
		p := Param{Name: nm, T: Named(d), Role: "ctx"}
		if r.Intn(2) == 0 {
			params = append([]Param{p}, params...)
			roles = append([]string{"ctx"}, roles...)
		} else {
			params = append(params, p)
			roles = append(roles, "ctx")
		}
		methLines = append(methLines, "context "+nm)
	}
	if needCtxA {
		addCtx("ca", ctxA)
	}
	if needCtxB {
		addCtx("cb", ctxB)
	}
	if needCtxD {
		addCtx("cd", ctxD)
	}
	if !needCtxA && !needCtxB && r.Intn(4) == 0 {
		// an unused context must not disturb anything
		addCtx("unused", ctxB)
	}
	if r.Intn(5) == 0 {
		// a variadic parameter in the context role: the implementation must stay variadic
		params = append(params, Param{Name: "opts", T: Slice(Basic("int")), Role: "ctx", Variadic: true})
		roles = append(roles, "ctx")
		methLines = append(methLines, "context opts")
		kindsUsed["variadicctx"] = true
	}
	cv := &Converter{Pkg: conv, File: "conv.go", Name: "Converter", Format: o.Format, Lines: convLines, OutPkgPath: "conv/generated", OutPkgName: "generated", ImplName: "ConverterImpl",
		ExtraImports: nil, Callables: callables}
	if o.Format == "variables" {
		cv.OutPkgPath, cv.OutPkgName = "conv", "conv"
	}
	m0 := &Method{Name: "M0", Params: params, Result: Named(T), HasErr: fallible, Lines: methLines,
		Spec: &vref.MethodSpec{Name: "M0", Roles: roles, Flags: flags, Fields: fields, HasErr: fallible, WrapMode: wm}}
	cv.Methods = append(cv.Methods, m0)
	for _, dm := range declared {
		dm.Spec.Flags = flags
		dm.Spec.WrapMode = wm
		cv.Methods = append(cv.Methods, dm)
	}
	if o.WrapLevel != "meth" && r.Intn(2) == 0 {
		// a list method that reuses M0 (needs the same contexts)
		p2 := append([]Param{}, params...)
		var lines2 []string
		for k := range p2 {
			if p2[k].Role == "source" {
				p2[k].T = Slice(Named(S))
			} else {
				lines2 = append(lines2, "context "+p2[k].Name)
			}
		}
		cv.Methods = append(cv.Methods, &Method{Name: "ML", Params: p2, Result: Slice(Named(T)), HasErr: fallible, Lines: lines2,
			Spec: &vref.MethodSpec{Name: "ML", Roles: roles, Flags: flags, HasErr: fallible, WrapMode: wm}})
		kindsUsed["listmethod"] = true
	}
	// custom function files
	header := func(pkg string) string {
		return "package " + pkg + "\n\nimport (\n\t\"fmt\"\n\t\"vcase/vref\"\n\t\"" + c.Root + "/ty\"\n)\n\nvar _ = fmt.Sprint\nvar _ = vref.Fail\nvar _ ty.S\n\n"
	}
	if tyMethods != "" {
		ty.Files = map[string]string{"methods.go": "package ty\n\nimport \"vcase/vref\"\n\n" + tyMethods}
	}
	conv.Files["funcs.go"] = header("conv") + funcsLocal.String()
	if funcsExt.Len() > 0 {
		ext.Files["funcs.go"] = header("ext") + funcsExt.String()
	} else {
		c.Pkgs = []*Package{ty, conv}
	}
	if funcsExt2.Len() > 0 {
		ext2.Files["funcs.go"] = header("ext") + funcsExt2.String()
		c.Pkgs = append(c.Pkgs, ext2)
	}
	// glue imports
	for _, ex := range callables {
		if strings.HasPrefix(ex, "conv.") && o.Format != "variables" {
			cv.GlueImports = appendUnique(cv.GlueImports, fmt.Sprintf("conv %q", c.Root+"/conv"))
		}
		if strings.HasPrefix(ex, "ext.") {
			cv.GlueImports = appendUnique(cv.GlueImports, fmt.Sprintf("ext %q", c.Root+"/ext"))
		}
		if strings.HasPrefix(ex, "ext2.") {
			cv.GlueImports = appendUnique(cv.GlueImports, fmt.Sprintf("ext2 %q", c.Root+"/more/ext"))
		}
	}
	if o.Format == "variables" {
		// the glue's "gen" import is the conv package itself
		for k, ex := range callables {
			callables[k] = strings.Replace(ex, "conv.", "gen.", 1)
		}
	}
	nv := o.NValues
	if nv == 0 {
		nv = 24
	}
	mon := []string{"value", "intact"}
	if fallible {
		mon = append(mon, "faults")
	}
	cv.Spec = &vref.Spec{Seed: o.Seed, NValues: nv, Monitors: mon, Conv: flags, Funcs: specFuncs, MaxFaults: o.MaxFaults}
	c.Convs = []*Converter{cv}
	c.Patterns = []string{"./conv"}
	var kl []string
	for k := range kindsUsed {
		kl = append(kl, k)
	}
	c.Feature("hooks", sortedJoin(kl))
	c.Feature("format", o.Format)
	c.Feature("wrap", wm+"@"+o.WrapLevel)
	c.Feature("fallible", fmt.Sprint(fallible))
	switch wm {
	case "wrapErrors":
		c.AllowImports = []string{"fmt"}
	case "using":
		c.AllowImports = []string{"vcase/errs"}
	}
	return c
}

func appendUnique(l []string, s string) []string {
	for _, x := range l {
		if x == s {
			return l
		}
	}
	return append(l, s)
}

package pgen

import (
	"fmt"
	"math/rand"

	"verif/vref"
)

// UpdateOpts configures the update-method corpus (C10).
type UpdateOpts struct {
	Format  string
	Seed    int64
	NValues int
	// UnusedDefault forces the shape in which the update method carries a goverter:default it never applies and its
	// own target type recurs below it (C11: inline T -> *U positions must not be touched by that constructor)
	UnusedDefault bool
}

// UpdateCase builds one goverter:update case.
func UpdateCase(r *rand.Rand, name string, o UpdateOpts) *Case {
	c := &Case{Name: name, Root: "vcase/" + name}
	src := &Package{Path: "src", Name: "src"}
	tgt := &Package{Path: "tgt", Name: "tgt"}
	conv := &Package{Path: "conv", Name: "conv"}
	c.Pkgs = []*Package{src, tgt, conv}
	n := 0
	decl := func(p *Package, prefix string, under *Type) *Decl {
		n++
		d := &Decl{Pkg: p, Name: fmt.Sprintf("%s%d", prefix, n), Under: under}
		p.Decls = append(p.Decls, d)
		return d
	}
	sS, tS := &Type{K: KStruct}, &Type{K: KStruct}
	S := decl(src, "S", sS)
	T := decl(tgt, "T", tS)
	ctxD := decl(src, "Ctx", Struct(F("ID", Basic("string"))))
	fields := map[string]vref.FieldSpec{}
	var methLines, convLines []string
	kinds := []string{"basic", "basic", "namedbasic", "struct", "slice", "map", "ptrbasic", "ptrstruct", "chan", "any", "identslice", "identptr", "ignore", "missing", "rename", "func", "basic2ptr", "funcfield", "computed", "mapfunc", "mapfunclist", "mapfuncany", "namedslice", "namedmap", "whole", "wholefunc", "nestedptr", "slice2ptr", "struct2ptr", "genericstruct"}
	needSkip, needMissing := false, false
	computed := false
	funcSrc := ""
	var mapFuncs, wholeFuncs []string
	wholeUsed, needBase := false, false
	nestedPtr := false
	var genDecl, genDeclT *Decl
	unnamedSource := r.Intn(5) == 0
	// defRec: the method's own target type recurs below it and is filled inline from an unnamed struct. The method's
	// field settings are keyed by the target TYPE and would apply there, too (not judged), so such cases only use
	// field kinds without map / ignore lines.
	if o.UnusedDefault {
		unnamedSource = false
	}
	defRec := !unnamedSource && (o.UnusedDefault || r.Intn(8) == 0)
	if defRec {
		kinds = []string{"basic", "basic", "namedbasic", "struct", "slice", "map", "ptrbasic", "ptrstruct", "identslice", "identptr", "basic2ptr", "namedslice", "namedmap", "slice2ptr", "struct2ptr", "genericstruct"}
	}
	used := map[string]bool{}
	nf := 3 + r.Intn(6)
	for i := 0; i < nf; i++ {
		k := kinds[r.Intn(len(kinds))]
		used[k] = true
		f := fmt.Sprintf("F%c", 'a'+i)
		b := leafBasics[r.Intn(len(leafBasics))]
		switch k {
		case "basic":
			sS.Fields = append(sS.Fields, F(f, Basic(b)))
			tS.Fields = append(tS.Fields, F(f, Basic(b)))
		case "namedbasic":
			sS.Fields = append(sS.Fields, F(f, Basic(b)))
			tS.Fields = append(tS.Fields, F(f, Named(decl(tgt, "TB", Basic(b)))))
		case "struct":
			si := decl(src, "SI", Struct(F("X", Basic("int")), F("Y", Basic("string"))))
			ti := decl(tgt, "TI", Struct(F("X", Basic("int")), F("Y", Basic("string"))))
			sS.Fields = append(sS.Fields, F(f, Named(si)))
			tS.Fields = append(tS.Fields, F(f, Named(ti)))
		case "slice":
			sS.Fields = append(sS.Fields, F(f, Slice(Basic(b))))
			tS.Fields = append(tS.Fields, F(f, Slice(Named(decl(tgt, "TE", Basic(b))))))
		case "whole":
			// map . FIELD: the whole source converts into a nested struct of the target
			if wholeUsed || unnamedSource {
				i--
				continue
			}
			wholeUsed = true
			wd := decl(tgt, "TW", Struct(F("WBase", Basic("int"))))
			tS.Fields = append(tS.Fields, F(f+"W", Named(wd)))
			methLines = append(methLines, "map . "+f+"W")
			fields[f+"W"] = vref.FieldSpec{Path: []string{"."}}
			needBase = true
		case "wholefunc":
			// map . FIELD | FUNC: the function receives the whole source (by value, or the pointer the method got)
			if unnamedSource {
				i--
				continue
			}
			fn := "Whole" + f
			tS.Fields = append(tS.Fields, F(f+"Out", Basic("string")))
			methLines = append(methLines, "map . "+f+"Out | "+fn)
			fields[f+"Out"] = vref.FieldSpec{Path: []string{"."}, Func: "fn:" + fn}
			wholeFuncs = append(wholeFuncs, fn)
			needBase = true
		case "nestedptr":
			// map HOLDER.Leaf FIELD through a pointer: the leaf arrives as a pointer, the source field is the leaf
			nd := decl(src, "SNest", Struct(F("Leaf", Basic(b)), F("K", Basic("int"))))
			sS.Fields = append(sS.Fields, F(f+"H", Ptr(Named(nd))))
			tS.Fields = append(tS.Fields, F(f+"NP", Ptr(Basic(b))))
			methLines = append(methLines, "map "+f+"H.Leaf "+f+"NP")
			fields[f+"NP"] = vref.FieldSpec{Path: []string{f + "H", "Leaf"}}
			nestedPtr = true
		case "namedslice":
			// named slice types are converted by a generated method
			sS.Fields = append(sS.Fields, F(f, Named(decl(src, "SL", Slice(Basic(b))))))
			tS.Fields = append(tS.Fields, F(f, Named(decl(tgt, "TL", Slice(Basic(b))))))
		case "namedmap":
			sS.Fields = append(sS.Fields, F(f, Named(decl(src, "SM", Map(Basic("string"), Basic(b))))))
			tS.Fields = append(tS.Fields, F(f, Named(decl(tgt, "TM", Map(Basic("string"), Basic(b))))))
		case "map":
			sS.Fields = append(sS.Fields, F(f, Map(Basic("string"), Basic(b))))
			tS.Fields = append(tS.Fields, F(f, Map(Basic("string"), Basic(b))))
		case "ptrbasic":
			sS.Fields = append(sS.Fields, F(f, Ptr(Basic(b))))
			tS.Fields = append(tS.Fields, F(f, Ptr(Basic(b))))
		case "ptrstruct":
			si := decl(src, "SI", Struct(F("X", Basic("int"))))
			ti := decl(tgt, "TI", Struct(F("X", Basic("int"))))
			sS.Fields = append(sS.Fields, F(f, Ptr(Named(si))))
			tS.Fields = append(tS.Fields, F(f, Ptr(Named(ti))))
		case "computed":
			// a target field computed by a function without source: always assigned
			if computed {
				i--
				continue
			}
			computed = true
			tS.Fields = append(tS.Fields, F(f, Basic("string")))
			methLines = append(methLines, "map "+f+" | Make")
			fields[f] = vref.FieldSpec{Func: "fn:Make", NoSource: true}
		case "mapfunc", "mapfunclist", "mapfuncany":
			// a target field computed by a function FROM a source field: the zero check applies to the value handed to it
			fn := "Conv" + f
			if k == "mapfunc" {
				sS.Fields = append(sS.Fields, F(f+"In", Basic("int")))
				funcSrc += fmt.Sprintf("func %s(v int) string { return fmt.Sprintf(\"%s:%%d\", v) }\n\n", fn, fn)
			} else if k == "mapfuncany" {
				// the function takes an interface: the zero check still concerns the source FIELD (an int)
				sS.Fields = append(sS.Fields, F(f+"In", Basic("int")))
				funcSrc += fmt.Sprintf("func %s(v any) string { return fmt.Sprintf(\"%s:%%v\", v) }\n\n", fn, fn)
			} else {
				sS.Fields = append(sS.Fields, F(f+"In", Slice(Basic("int"))))
				funcSrc += fmt.Sprintf("func %s(v []int) string { return fmt.Sprintf(\"%s:%%v\", v) }\n\n", fn, fn)
			}
			tS.Fields = append(tS.Fields, F(f+"Out", Basic("string")))
			methLines = append(methLines, "map "+f+"In "+f+"Out | "+fn)
			fields[f+"Out"] = vref.FieldSpec{Path: []string{f + "In"}, Func: "fn:" + fn}
			mapFuncs = append(mapFuncs, fn)
		case "genericstruct":
			// an instantiated generic struct on both sides (comparable): its zero value has to be spelled with the type arguments
			if genDecl == nil {
				genDecl = decl(src, "Gen", Struct(F("V", Basic("T")), F("N", Basic("int"))))
				genDecl.TypeParams = []string{"T"}
				genDeclT = decl(tgt, "GenT", Struct(F("V", Basic("T")), F("N", Basic("int"))))
				genDeclT.TypeParams = []string{"T"}
			}
			sS.Fields = append(sS.Fields, F(f, &Type{K: KNamed, Decl: genDecl, Args: []*Type{Basic(b)}}))
			tS.Fields = append(tS.Fields, F(f, &Type{K: KNamed, Decl: genDeclT, Args: []*Type{Basic(b)}}))
		case "slice2ptr":
			// inline T -> *U of a composite
			sS.Fields = append(sS.Fields, F(f, Slice(Basic(b))))
			tS.Fields = append(tS.Fields, F(f, Ptr(Slice(Basic(b)))))
		case "struct2ptr":
			sS.Fields = append(sS.Fields, F(f, Struct(F("X", Basic(b)))))
			tS.Fields = append(tS.Fields, F(f, Ptr(Struct(F("X", Basic(b))))))
		case "basic2ptr":
			sS.Fields = append(sS.Fields, F(f, Basic(b)))
			tS.Fields = append(tS.Fields, F(f, Ptr(Basic(b))))
		case "funcfield":
			if !unnamedSource {
				// a func-typed field of a named source struct is a source method, not a value
				i--
				continue
			}
			sS.Fields = append(sS.Fields, F(f, RawType(KFunc, "func() int")))
			tS.Fields = append(tS.Fields, F(f, RawType(KFunc, "func() int")))
			needSkip = true
		case "chan":
			sS.Fields = append(sS.Fields, F(f, RawType(KChan, "chan int")))
			tS.Fields = append(tS.Fields, F(f, RawType(KChan, "chan int")))
			needSkip = true
		case "func":
			sS.Fields = append(sS.Fields, F(f, Map(Basic("string"), RawType(KFunc, "func() int"))))
			tS.Fields = append(tS.Fields, F(f, Map(Basic("string"), RawType(KFunc, "func() int"))))
			needSkip = true
		case "any":
			sS.Fields = append(sS.Fields, F(f, RawType(KIface, "any")))
			tS.Fields = append(tS.Fields, F(f, RawType(KIface, "any")))
			needSkip = true
		case "identslice":
			sS.Fields = append(sS.Fields, F(f, Slice(Basic("string"))))
			tS.Fields = append(tS.Fields, F(f, Slice(Basic("string"))))
		case "identptr":
			if r.Intn(2) == 0 {
				// identical types with different names
				sS.Fields = append(sS.Fields, F(f, Ptr(Basic("rune"))), F(f+"B", Ptr(Basic("byte"))))
				tS.Fields = append(tS.Fields, F(f, Ptr(Basic("int32"))), F(f+"B", Ptr(Basic("uint8"))))
				break
			}
			sS.Fields = append(sS.Fields, F(f, Ptr(Basic("int"))))
			tS.Fields = append(tS.Fields, F(f, Ptr(Basic("int"))))
		case "ignore":
			tS.Fields = append(tS.Fields, F(f, Basic(b)))
			if r.Intn(2) == 0 {
				sS.Fields = append(sS.Fields, F(f, Basic(b)))
			}
			methLines = append(methLines, "ignore "+f)
			fields[f] = vref.FieldSpec{Ignore: true}
		case "missing":
			tS.Fields = append(tS.Fields, F(f, Slice(Basic(b))))
			needMissing = true
		case "rename":
			sS.Fields = append(sS.Fields, F(f+"Src", Basic(b)))
			tS.Fields = append(tS.Fields, F(f+"Tgt", Basic(b)))
			methLines = append(methLines, "map "+f+"Src "+f+"Tgt")
			fields[f+"Tgt"] = vref.FieldSpec{Path: []string{f + "Src"}}
		}
	}
	// a goverter:default line on an update method is not used by it and must not disturb the field conversions
	// (an inline T -> *U position next to it shows whether it does)
	defLine := !unnamedSource && (defRec || r.Intn(6) == 0)
	if defLine {
		sS.Fields = append(sS.Fields, F("DefP", Slice(Basic("int"))), F("DefQ", Map(Basic("string"), Ptr(Basic("int")))))
		tS.Fields = append(tS.Fields, F("DefP", Ptr(Slice(Basic("int")))), F("DefQ", Map(Basic("string"), Ptr(Basic("int")))))
		if r.Intn(2) == 0 {
			// ... and default:update in effect (it has nothing to update here)
			convLines = append(convLines, "default:update")
			c.Feature("defaultupdateline", "true")
		}
		methLines = append(methLines, "default NewDef")
		c.Feature("defaultline", "true")
	}
	if unnamedSource && !used["funcfield"] && r.Intn(3) != 0 {
		// func-typed fields are values only in unnamed source structs: keep them frequent there
		used["funcfield"] = true
		sS.Fields = append(sS.Fields, F("Fzf", RawType(KFunc, "func() int")))
		tS.Fields = append(tS.Fields, F("Fzf", RawType(KFunc, "func() int")))
		needSkip = true
	}
	if len(sS.Fields) == 0 {
		sS.Fields = append(sS.Fields, F("Base", Basic("int")))
		tS.Fields = append(tS.Fields, F("Base", Basic("int")))
	}
	if needBase {
		sS.Fields = append(sS.Fields, F("WBase", Basic("int")))
	}
	flagsConv, flagsMeth := vref.Flags{}, vref.Flags{}
	// inheritable settings at one of the three levels
	// inheritable settings are written at one of three levels; the value in effect is resolved afterwards
	// (command line, then converter, then method, each in written order)
	var setCLI, setConv, setMeth []func(f *vref.Flags)
	place := func(line string, set func(f *vref.Flags)) {
		switch r.Intn(3) {
		case 0:
			c.Args = append(c.Args, "-g", line)
			setCLI = append(setCLI, set)
		case 1:
			convLines = append(convLines, line)
			setConv = append(setConv, set)
		default:
			methLines = append(methLines, line)
			setMeth = append(setMeth, set)
		}
	}
	if needSkip || r.Intn(3) == 0 {
		// sub-methods get the converter-level value: keep skipCopySameType above the method level
		convLines = append(convLines, "skipCopySameType")
		flagsConv.SkipCopy, flagsMeth.SkipCopy = true, true
	}
	if needMissing {
		place("ignoreMissing", func(f *vref.Flags) { f.IgnoreMissing = true })
	}
	if defRec {
		// the method's own target type recurs below it, filled inline from an unnamed struct: an ordinary T -> *U
		// position that has nothing to do with the (unused) constructor of the method
		sS.Fields = append(sS.Fields, F("DefR", Struct(F("DefRV", Basic("int")))))
		tS.Fields = append(tS.Fields, F("DefR", Ptr(Named(T))), F("DefRV", Basic("int")))
		convLines = append(convLines, "ignoreMissing")
		setConv = append(setConv, func(f *vref.Flags) { f.IgnoreMissing = true })
		c.Feature("defaultrecursive", "true")
	}
	// the zero test of a non-comparable struct (the whole source with a slice field) is the known finding
	// F-C01-noncomparable-zero: keep :struct off there
	noStructIZ := false
	if wholeUsed || len(wholeFuncs) > 0 {
		for _, f := range sS.Fields {
			if !isComparableLeaf(f.T) {
				noStructIZ = true
			}
		}
	}
	izCase := r.Intn(4)
	if noStructIZ && izCase == 1 {
		izCase = 2
	}
	switch izCase {
	case 0:
		// nothing: no zero-value skipping
	case 1:
		place("update:ignoreZeroValueField", func(f *vref.Flags) { f.IZBasic, f.IZStruct, f.IZNillable = true, true, true })
	default:
		if r.Intn(2) == 0 {
			place("update:ignoreZeroValueField:basic", func(f *vref.Flags) { f.IZBasic = true })
		}
		if r.Intn(2) == 0 && !noStructIZ {
			place("update:ignoreZeroValueField:struct", func(f *vref.Flags) { f.IZStruct = true })
		}
		if r.Intn(2) == 0 {
			place("update:ignoreZeroValueField:nillable yes", func(f *vref.Flags) { f.IZNillable = true })
		}
		if r.Intn(4) == 0 && !noStructIZ {
			// enable everything, then switch one part off again
			place("update:ignoreZeroValueField yes", func(f *vref.Flags) { f.IZBasic, f.IZStruct, f.IZNillable = true, true, true })
			place("update:ignoreZeroValueField:struct no", func(f *vref.Flags) { f.IZStruct = false })
		}
	}
	for _, set := range append(append([]func(f *vref.Flags){}, setCLI...), setConv...) {
		set(&flagsConv)
		set(&flagsMeth)
	}
	for _, set := range setMeth {
		set(&flagsMeth)
	}
	// signature
	sT := Named(S)
	if unnamedSource {
		sT = sS // the source parameter is an unnamed struct type
	}
	if r.Intn(2) == 0 {
		sT = Ptr(sT)
	}
	params := []Param{{Name: "source", T: sT, Role: "source"}, {Name: "target", T: Ptr(Named(T)), Role: "target"}}
	if r.Intn(2) == 0 {
		params[0], params[1] = params[1], params[0]
	}
	if r.Intn(3) == 0 {
		cp := Param{Name: "ctx", T: Named(ctxD), Role: "ctx"}
		pos := r.Intn(3)
		params = append(params[:pos], append([]Param{cp}, params[pos:]...)...)
		methLines = append(methLines, "context ctx")
	}
	var roles []string
	for _, p := range params {
		roles = append(roles, p.Role)
	}
	hasErr := r.Intn(3) == 0
	methLines = append([]string{"update target"}, methLines...)
	cv := &Converter{Pkg: conv, File: "conv.go", Name: "Converter", Format: o.Format, Lines: convLines, OutPkgPath: "conv/generated", OutPkgName: "generated", ImplName: "ConverterImpl"}
	if o.Format == "variables" {
		cv.OutPkgPath, cv.OutPkgName = "conv", "conv"
	}
	cv.Methods = append(cv.Methods, &Method{Name: "Update", Params: params, HasErr: hasErr, Lines: methLines,
		Spec: &vref.MethodSpec{Name: "Update", Roles: roles, Flags: flagsMeth, Fields: fields, HasErr: hasErr}})
	nv := o.NValues
	if nv == 0 {
		nv = 45
	}
	cv.Spec = &vref.Spec{Seed: o.Seed, NValues: nv, Monitors: []string{"update"}, Conv: flagsConv}
	if defLine {
		funcSrc += fmt.Sprintf("func NewDef() tgt.%s { return tgt.%s{} }\n\n", T.Name, T.Name)
	}
	for _, fn := range wholeFuncs {
		if sT.K == KPtr && r.Intn(2) == 0 {
			funcSrc += fmt.Sprintf("func %s(s *src.%s) string { return fmt.Sprintf(\"%s:%%d\", s.WBase) }\n\n", fn, S.Name, fn)
		} else {
			funcSrc += fmt.Sprintf("func %s(s src.%s) string { return fmt.Sprintf(\"%s:%%d\", s.WBase) }\n\n", fn, S.Name, fn)
		}
		mapFuncs = append(mapFuncs, fn)
	}
	if computed || len(mapFuncs) > 0 || defLine {
		qual := "conv."
		cv.GlueImports = []string{fmt.Sprintf("conv %q", c.Root+"/conv")}
		if o.Format == "variables" {
			qual = "gen."
			cv.GlueImports = nil
		}
		cv.Callables = map[string]string{}
		src := "package conv\n\nimport \"fmt\"\n\nvar _ = fmt.Sprint\n\n"
		if len(wholeFuncs) > 0 || defLine {
			src = "package conv\n\nimport (\n\t\"fmt\"\n\t\"" + c.Root + "/src\"\n\t\"" + c.Root + "/tgt\"\n)\n\nvar _ = fmt.Sprint\nvar _ src." + S.Name + "\nvar _ tgt." + T.Name + "\n\n"
		}
		if computed {
			src += "func Make() string { return \"made\" }\n\n"
			cv.Spec.Funcs = append(cv.Spec.Funcs, &vref.FuncSpec{Key: "fn:Make", Kind: "map", Roles: []string{}})
			cv.Callables["fn:Make"] = qual + "Make"
		}
		for _, fn := range mapFuncs {
			cv.Spec.Funcs = append(cv.Spec.Funcs, &vref.FuncSpec{Key: "fn:" + fn, Kind: "map", Roles: []string{"source"}})
			cv.Callables["fn:"+fn] = qual + fn
		}
		if len(cv.Callables) == 0 {
			cv.GlueImports = nil // nothing of conv is called by the glue
		}
		conv.Files = map[string]string{"funcs.go": src + funcSrc}
	}
	c.Convs = []*Converter{cv}
	c.Patterns = []string{"./conv"}
	var kl []string
	for k := range used {
		kl = append(kl, k)
	}
	c.Feature("fieldkinds", sortedJoin(kl))
	c.Feature("format", o.Format)
	c.Feature("izv", fmt.Sprintf("b%v-s%v-n%v", flagsMeth.IZBasic, flagsMeth.IZStruct, flagsMeth.IZNillable))
	c.Feature("skipcopy", fmt.Sprint(flagsMeth.SkipCopy))
	c.Feature("ptrsource", fmt.Sprint(sT.K == KPtr))
	c.Feature("unnamedsource", fmt.Sprint(unnamedSource))
	c.Feature("nestedptrpath", fmt.Sprint(nestedPtr))
	c.Feature("error", fmt.Sprint(hasErr))
	return c
}

package pgen

import "verif/vref"

// PinnedArrayAssign reproduces the known finding F-C02-array-assign:
// [N]T -> []T at an assignment position (struct field) indexes a nil slice.
func PinnedArrayAssign(name string) *Case {
	c := &Case{Name: name, Root: "vcase/" + name}
	src := &Package{Path: "src", Name: "src"}
	tgt := &Package{Path: "tgt", Name: "tgt"}
	conv := &Package{Path: "conv", Name: "conv"}
	s := &Decl{Pkg: src, Name: "In", Under: Struct(F("Value", Array(3, Basic("int"))))}
	t := &Decl{Pkg: tgt, Name: "Out", Under: Struct(F("Value", Slice(Basic("int"))))}
	src.Decls = []*Decl{s}
	tgt.Decls = []*Decl{t}
	c.Pkgs = []*Package{src, tgt, conv}
	cv := &Converter{Pkg: conv, File: "conv.go", Name: "Converter", Format: "struct", OutPkgPath: "conv/generated", OutPkgName: "generated", ImplName: "ConverterImpl"}
	cv.Methods = []*Method{{Name: "M0", Params: []Param{{Name: "source", T: Named(s), Role: "source"}}, Result: Named(t),
		Spec: &vref.MethodSpec{Name: "M0", Roles: []string{"source"}}}}
	cv.Spec = &vref.Spec{Seed: 1, NValues: 6, Monitors: []string{"value", "intact"}}
	c.Convs = []*Converter{cv}
	c.Patterns = []string{"./conv"}
	c.Feature("tag", "array-assign,pinned")
	return c
}

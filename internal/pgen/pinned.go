package pgen

import "verif/vref"

// PinnedArrayAssign reproduces the known finding F-C02-array-assign:
// [N]T -> []T at an assignment position (struct field) indexes a nil slice.
func PinnedArrayAssign(name string) *Case {
	c := &Case{Name: name, Root: "vcase/" + name}
	src := &Package{Path: "src", Name: "src"}
	tgt := &Package{Path: "tgt", Name: "tgt"}
	conv := &Package{Path: "conv", Name: "conv"}
	s := &Decl{Pkg: src, Name: "In", Under: Struct(F("Value", Array(3, Basic("int"))))}
	t := &Decl{Pkg: tgt, Name: "Out", Under: Struct(F("Value", Slice(Basic("int"))))}
	src.Decls = []*Decl{s}
	tgt.Decls = []*Decl{t}
	c.Pkgs = []*Package{src, tgt, conv}
	cv := &Converter{Pkg: conv, File: "conv.go", Name: "Converter", Format: "struct", OutPkgPath: "conv/generated", OutPkgName: "generated", ImplName: "ConverterImpl"}
	cv.Methods = []*Method{{Name: "M0", Params: []Param{{Name: "source", T: Named(s), Role: "source"}}, Result: Named(t),
		Spec: &vref.MethodSpec{Name: "M0", Roles: []string{"source"}}}}
	cv.Spec = &vref.Spec{Seed: 1, NValues: 6, Monitors: []string{"value", "intact"}}
	c.Convs = []*Converter{cv}
	c.Patterns = []string{"./conv"}
	c.Feature("tag", "array-assign,pinned")
	return c
}

func simpleConv(conv *Package, name, format string, lines []string, methods ...*Method) *Converter {
	cv := &Converter{Pkg: conv, File: "conv.go", Name: name, Format: format, Lines: lines, OutPkgPath: conv.Path + "/generated", OutPkgName: "generated", ImplName: name + "Impl"}
	cv.Methods = methods
	cv.Spec = &vref.Spec{Seed: 1, NValues: 6, Monitors: []string{"value"}}
	return cv
}

func method1(name string, s, t *Type) *Method {
	return &Method{Name: name, Params: []Param{{Name: "source", T: s, Role: "source"}}, Result: t,
		Spec: &vref.MethodSpec{Name: name, Roles: []string{"source"}}}
}

// PinnedPkgShadow reproduces F-C01-pkg-shadow: the user's package is called like a local
// identifier of the emitted function, so the parameter shadows the import.
func PinnedPkgShadow(name string) *Case {
	c := &Case{Name: name, Root: "vcase/" + name}
	src := &Package{Path: "source", Name: "source"}
	tgt := &Package{Path: "tgt", Name: "tgt"}
	conv := &Package{Path: "conv", Name: "conv"}
	s := &Decl{Pkg: src, Name: "In", Under: Struct(F("V", Basic("int")))}
	t := &Decl{Pkg: tgt, Name: "Out", Under: Struct(F("V", Basic("int")))}
	src.Decls = []*Decl{s}
	tgt.Decls = []*Decl{t}
	c.Pkgs = []*Package{src, tgt, conv}
	c.Convs = []*Converter{simpleConv(conv, "Converter", "struct", nil, method1("M0", Named(s), Named(t)))}
	c.Patterns = []string{"./conv"}
	c.Feature("tag", "pkg:source,pinned")
	return c
}

// PinnedHelperRedeclared reproduces F-C01-helper-redeclared: two function-format converters that
// write two files of one package both emit the helper for the same nested pair.
func PinnedHelperRedeclared(name string) *Case {
	c := &Case{Name: name, Root: "vcase/" + name}
	src := &Package{Path: "src", Name: "src"}
	tgt := &Package{Path: "tgt", Name: "tgt"}
	conv := &Package{Path: "conv", Name: "conv"}
	si := &Decl{Pkg: src, Name: "Inner", Under: Struct(F("V", Basic("int")))}
	ti := &Decl{Pkg: tgt, Name: "Inner", Under: Struct(F("V", Basic("int")))}
	sa := &Decl{Pkg: src, Name: "A", Under: Struct(F("I", Named(si)))}
	ta := &Decl{Pkg: tgt, Name: "A", Under: Struct(F("I", Named(ti)))}
	sb := &Decl{Pkg: src, Name: "B", Under: Struct(F("I", Named(si)), F("N", Basic("string")))}
	tb := &Decl{Pkg: tgt, Name: "B", Under: Struct(F("I", Named(ti)), F("N", Basic("string")))}
	src.Decls = []*Decl{si, sa, sb}
	tgt.Decls = []*Decl{ti, ta, tb}
	c.Pkgs = []*Package{src, tgt, conv}
	c1 := simpleConv(conv, "Converter", "function", nil, method1("M0", Named(sa), Named(ta)))
	c2 := simpleConv(conv, "Converter2", "function", []string{"output:file ./generated/second.go"}, method1("K1M0", Named(sb), Named(tb)))
	c.Convs = []*Converter{c1, c2}
	c.Patterns = []string{"./conv"}
	c.Feature("tag", "multi-file-pkg,pinned")
	return c
}

// PinnedHelperRedeclaredSpelled is PinnedHelperRedeclared with the two converters naming their common output
// package in two ways (one spells output:package PATH:NAME with the default values, the other leaves it out,
// or only one of them gives the path): files of one directory share their helper names however the package is written.
func PinnedHelperRedeclaredSpelled(name string, variant int) *Case {
	c := PinnedHelperRedeclared(name)
	pkg := c.Root + "/conv/generated"
	switch variant {
	case 0:
		c.Convs[0].Lines = append(c.Convs[0].Lines, "output:package "+pkg+":generated")
	case 1:
		c.Convs[1].Lines = append(c.Convs[1].Lines, "output:package "+pkg+":generated")
		c.Convs[0].Lines = append(c.Convs[0].Lines, "output:package "+pkg)
	default:
		c.Convs[1].Lines = append(c.Convs[1].Lines, "output:package :generated")
	}
	c.Feature("tag", "multi-file-pkg,pinned,pkg-spelling")
	return c
}

// PinnedSkipCopyAddr reproduces the fixed finding "skipCopySameType + T -> *T takes the address of a
// source field": *In{L []int} -> *Out{L *[]int}.
func PinnedSkipCopyAddr(name string) *Case {
	c := &Case{Name: name, Root: "vcase/" + name}
	src := &Package{Path: "src", Name: "src"}
	tgt := &Package{Path: "tgt", Name: "tgt"}
	conv := &Package{Path: "conv", Name: "conv"}
	s := &Decl{Pkg: src, Name: "In", Under: Struct(F("L", Slice(Basic("int"))), F("E", Slice(Map(Basic("string"), Basic("int")))))}
	t := &Decl{Pkg: tgt, Name: "Out", Under: Struct(F("L", Ptr(Slice(Basic("int")))), F("E", Slice(Ptr(Map(Basic("string"), Basic("int"))))))}
	src.Decls = []*Decl{s}
	tgt.Decls = []*Decl{t}
	c.Pkgs = []*Package{src, tgt, conv}
	cv := simpleConv(conv, "Converter", "struct", []string{"skipCopySameType"}, method1("M0", Ptr(Named(s)), Ptr(Named(t))))
	cv.Methods[0].Spec.Flags.SkipCopy = true
	cv.Spec = &vref.Spec{Seed: 1, NValues: 12, Monitors: []string{"value", "intact", "alias", "mutate"}, Conv: vref.Flags{SkipCopy: true}}
	c.Convs = []*Converter{cv}
	c.Patterns = []string{"./conv"}
	c.Feature("tag", "pinned")
	c.Feature("skipcopy", "true")
	return c
}

// PinnedSkipCopyIndexAddr: with skipCopySameType a list element of identical type that is wrapped into a pointer
// ([]X -> []*X) must be copied, not taken by address (the element lives in the source's backing array).
func PinnedSkipCopyIndexAddr(name string) *Case {
	c := &Case{Name: name, Root: "vcase/" + name}
	conv := &Package{Path: "conv", Name: "conv"}
	c.Pkgs = []*Package{conv}
	row := func() *Type { return Struct(F("A", Basic("int")), F("L", Slice(Basic("int")))) }
	cv := simpleConv(conv, "Converter", "struct", []string{"skipCopySameType"},
		method1("M0", Slice(row()), Slice(Ptr(row()))),
		method1("M1", Map(Basic("string"), row()), Map(Basic("string"), Ptr(row()))))
	for _, m := range cv.Methods {
		m.Spec.Flags.SkipCopy = true
	}
	cv.Spec = &vref.Spec{Seed: 1, NValues: 12, Monitors: []string{"value", "intact", "alias", "mutate"}, Conv: vref.Flags{SkipCopy: true}}
	c.Convs = []*Converter{cv}
	c.Patterns = []string{"./conv"}
	c.Feature("tag", "pinned")
	c.Feature("skipcopy", "true")
	return c
}

// PinnedUnsafePointer: unsafe.Pointer values (opaque handles, copied like basics) that have to be wrapped into a
// pointer: the result must point to a copy of the handle, never into the source's struct, backing array or map.
func PinnedUnsafePointer(name string) *Case {
	c := &Case{Name: name, Root: "vcase/" + name}
	src := &Package{Path: "src", Name: "src", Files: map[string]string{"handle.go": "package src\n\nimport \"unsafe\"\n\ntype UP = unsafe.Pointer\n"}}
	tgt := &Package{Path: "tgt", Name: "tgt", Files: map[string]string{"handle.go": "package tgt\n\nimport \"unsafe\"\n\ntype UP = unsafe.Pointer\n"}}
	conv := &Package{Path: "conv", Name: "conv"}
	up := func() *Type { return RawType(KChan, "UP") }
	s := &Decl{Pkg: src, Name: "In", Under: Struct(F("H", up()), F("L", Slice(up())), F("M", Map(Basic("string"), up())), F("N", Basic("int")))}
	t := &Decl{Pkg: tgt, Name: "Out", Under: Struct(F("H", Ptr(up())), F("L", Slice(Ptr(up()))), F("M", Map(Basic("string"), Ptr(up()))), F("N", Ptr(Basic("int"))))}
	sl := &Decl{Pkg: src, Name: "InL", Under: Slice(up())}
	tl := &Decl{Pkg: tgt, Name: "OutL", Under: Slice(Ptr(up()))}
	src.Decls = []*Decl{s, sl}
	tgt.Decls = []*Decl{t, tl}
	c.Pkgs = []*Package{src, tgt, conv}
	cv := simpleConv(conv, "Converter", "struct", nil,
		method1("M0", Ptr(Named(s)), Ptr(Named(t))),
		method1("M1", Named(sl), Named(tl)),
		method1("M2", Slice(Named(s)), Slice(Named(t))))
	cv.Spec = &vref.Spec{Seed: 1, NValues: 12, Monitors: []string{"value", "intact", "alias", "mutate"}}
	c.Convs = []*Converter{cv}
	c.Patterns = []string{"./conv"}
	c.Feature("tag", "pinned")
	c.Feature("leaf", "unsafe.Pointer")
	return c
}

// PinnedPointerDrop: *T -> T (useZeroValueOnPointerInconsistency) at every container position for basic, named basic
// and struct pointees: a nil pointer becomes the zero value, the entry / element count is preserved.
func PinnedPointerDrop(name string) *Case {
	c := &Case{Name: name, Root: "vcase/" + name}
	src := &Package{Path: "src", Name: "src"}
	tgt := &Package{Path: "tgt", Name: "tgt"}
	conv := &Package{Path: "conv", Name: "conv"}
	nbS := &Decl{Pkg: src, Name: "NB", Under: Basic("int32")}
	nbT := &Decl{Pkg: tgt, Name: "NB", Under: Basic("int32")}
	inS := &Decl{Pkg: src, Name: "Item", Under: Struct(F("V", Basic("int")), F("P", Ptr(Basic("string"))))}
	inT := &Decl{Pkg: tgt, Name: "Item", Under: Struct(F("V", Basic("int")), F("P", Basic("string")))}
	s := &Decl{Pkg: src, Name: "In", Under: Struct(
		F("F", Ptr(Basic("int"))), F("L", Slice(Ptr(Basic("string")))), F("M", Map(Basic("string"), Ptr(Basic("uint64")))),
		F("MN", Map(Basic("int"), Ptr(Named(nbS)))), F("LN", Slice(Ptr(Named(nbS)))), F("MS", Map(Basic("string"), Ptr(Named(inS)))),
		F("LS", Slice(Ptr(Named(inS)))), F("MM", Map(Basic("string"), Map(Basic("string"), Ptr(Basic("bool"))))), F("PP", Ptr(Ptr(Basic("int")))))}
	t := &Decl{Pkg: tgt, Name: "Out", Under: Struct(
		F("F", Basic("int")), F("L", Slice(Basic("string"))), F("M", Map(Basic("string"), Basic("uint64"))),
		F("MN", Map(Basic("int"), Named(nbT))), F("LN", Slice(Named(nbT))), F("MS", Map(Basic("string"), Named(inT))),
		F("LS", Slice(Named(inT))), F("MM", Map(Basic("string"), Map(Basic("string"), Basic("bool")))), F("PP", Ptr(Basic("int"))))}
	src.Decls = []*Decl{nbS, inS, s}
	tgt.Decls = []*Decl{nbT, inT, t}
	c.Pkgs = []*Package{src, tgt, conv}
	cv := simpleConv(conv, "Converter", "struct", []string{"useZeroValueOnPointerInconsistency"},
		method1("M0", Named(s), Named(t)),
		method1("M1", Map(Basic("string"), Ptr(Basic("int"))), Map(Basic("string"), Basic("int"))),
		method1("M2", Slice(Ptr(Named(nbS))), Slice(Named(nbT))))
	for _, m := range cv.Methods {
		m.Spec.Flags.UseZero = true
	}
	cv.Spec = &vref.Spec{Seed: 1, NValues: 40, Monitors: []string{"value", "intact"}, Conv: vref.Flags{UseZero: true}}
	c.Convs = []*Converter{cv}
	c.Patterns = []string{"./conv"}
	c.Feature("tag", "pinned")
	c.Feature("usezero", "true")
	return c
}

// PinnedMapValueAddr: map values of an unnamed type that are passed through (skipCopySameType) and wrapped into a
// pointer: every entry needs its own pointee (the scratch module is built with go 1.21, where the range variable is
// shared by all iterations).
func PinnedMapValueAddr(name string) *Case {
	c := &Case{Name: name, Root: "vcase/" + name}
	conv := &Package{Path: "conv", Name: "conv"}
	c.Pkgs = []*Package{conv}
	row := func() *Type { return Struct(F("X", Basic("int")), F("L", Slice(Basic("string")))) }
	cv := simpleConv(conv, "Converter", "struct", []string{"skipCopySameType"},
		method1("M0", Map(Basic("string"), Slice(Basic("int"))), Map(Basic("string"), Ptr(Slice(Basic("int"))))),
		method1("M1", Map(Basic("string"), row()), Map(Basic("string"), Ptr(row()))),
		method1("M2", Map(Basic("int"), Map(Basic("string"), Basic("int"))), Map(Basic("int"), Ptr(Ptr(Map(Basic("string"), Basic("int")))))),
		method1("M3", Struct(F("M", Map(Basic("string"), Array(2, Basic("int"))))), Struct(F("M", Map(Basic("string"), Ptr(Array(2, Basic("int"))))))))
	for _, m := range cv.Methods {
		m.Spec.Flags.SkipCopy = true
	}
	cv.Spec = &vref.Spec{Seed: 1, NValues: 16, Monitors: []string{"value", "intact"}, Conv: vref.Flags{SkipCopy: true}}
	c.Convs = []*Converter{cv}
	c.Patterns = []string{"./conv"}
	c.Feature("tag", "pinned")
	c.Feature("shape", "mapvalue-addr")
	c.Feature("skipcopy", "true")
	return c
}

// PinnedArrayBuild: arrays as sources at positions where the target slice is created by the conversion itself
// (method result, map value, behind a pointer) - the working counterpart of the known finding F-C02-array-assign.
func PinnedArrayBuild(name string) *Case {
	c := &Case{Name: name, Root: "vcase/" + name}
	src := &Package{Path: "src", Name: "src"}
	tgt := &Package{Path: "tgt", Name: "tgt"}
	conv := &Package{Path: "conv", Name: "conv"}
	inS := &Decl{Pkg: src, Name: "Item", Under: Struct(F("V", Basic("int")), F("S", Basic("string")))}
	inT := &Decl{Pkg: tgt, Name: "Item", Under: Struct(F("V", Basic("int")), F("S", Basic("string")))}
	arrS := &Decl{Pkg: src, Name: "Triple", Under: Array(3, Named(inS))}
	src.Decls = []*Decl{inS, arrS}
	tgt.Decls = []*Decl{inT}
	c.Pkgs = []*Package{src, tgt, conv}
	cv := simpleConv(conv, "Converter", "struct", nil,
		method1("M0", Array(3, Basic("int")), Slice(Basic("int"))),
		method1("M1", Map(Basic("string"), Array(2, Basic("string"))), Map(Basic("string"), Slice(Basic("string")))),
		method1("M2", Ptr(Array(2, Named(inS))), Ptr(Slice(Named(inT)))),
		method1("M3", Named(arrS), Slice(Named(inT))),
		method1("M4", Array(0, Basic("int")), Slice(Basic("int"))),
		method1("M5", Map(Basic("int"), Named(arrS)), Map(Basic("int"), Slice(Ptr(Named(inT))))))
	cv.Spec = &vref.Spec{Seed: 1, NValues: 16, Monitors: []string{"value", "intact", "alias", "mutate"}}
	c.Convs = []*Converter{cv}
	c.Patterns = []string{"./conv"}
	c.Feature("tag", "pinned")
	c.Feature("shape", "array-build")
	return c
}

package pgen

import (
	"fmt"
	"math/rand"
	"strings"

	"verif/vref"
)

// StructOpts configures the structural corpus (C01, C02, C04, C18).
type StructOpts struct {
	Format   string // struct | function | variables
	SamePkg  bool   // types, declaration and output in one package
	SkipCopy bool
	UseZero  bool
	NMethods int
	Depth    int
	// AllowArrayAssign lets [N]T -> []T appear at assignment positions (known finding F-C02-array-assign).
	AllowArrayAssign bool
	TopKind          string // force the top-level source constructor: "", basic, named, ptr, slice, array, map, struct, nstruct
	Hostile          bool   // hostile identifier names
	Monitors         []string
	HostilePkgs      bool
	NConverters      int
	// CLIPackage: a CLI-level output:package PATH:NAME that every converter overrides with its own PATH
	CLIPackage bool
	// PointerKeys: map keys may be pointers or structs holding pointers
	PointerKeys bool
	// MethodSkipCopy: skipCopySameType is written on the first method only (siblings and shared sub-methods must deep-copy)
	MethodSkipCopy bool
	NValues        int
	Seed           int64
}

type sgen struct {
	r          *rand.Rand
	o          StructOpts
	src        *Package
	tgt        *Package
	memo       map[*Decl]*Decl
	open       map[*Decl]bool
	nDecl      int
	names      *namePool
	decls      []*Decl // source decls (for reuse / recursion)
	arrAssign  bool
	genS, genT *Decl
	embN       int
	enumLeaves bool
}

var basics = []string{"int", "int8", "int16", "int32", "int64", "uint", "uint8", "uint16", "uint32", "uint64", "float32", "float64", "string", "bool", "complex128", "rune", "byte"}
var keyBasics = []string{"int", "int32", "int64", "uint8", "uint64", "string", "bool", "float64"}

type namePool struct {
	r       *rand.Rand
	hostile bool
	used    map[string]bool
}

var hostileFields = []string{"Source", "Target", "Context", "C", "I", "Key", "Value", "Err", "Init", "Error", "String", "Type_", "Func_", "Map", "Len", "Nil", "J", "X", "Unnamed", "PInt", "IntList", "Ünï", "Fmt", "Generated"}
var hostileTypes = []string{"Source", "Target", "Context", "Err", "Init", "Error", "String", "Int", "List", "PList", "Impl", "Converter", "Ünï", "Fmt", "X", "I", "Key", "Value"}

func (n *namePool) field(i int) string {
	if n.hostile && n.r.Intn(2) == 0 {
		for k := 0; k < 5; k++ {
			c := hostileFields[n.r.Intn(len(hostileFields))]
			return c
		}
	}
	return fmt.Sprintf("F%d", i)
}

func (n *namePool) typ(prefix string, i int) string {
	if n.hostile && n.r.Intn(2) == 0 {
		for k := 0; k < 8; k++ {
			c := prefix + hostileTypes[n.r.Intn(len(hostileTypes))]
			if !n.used[c] {
				n.used[c] = true
				return c
			}
		}
	}
	c := fmt.Sprintf("%s%d", prefix, i)
	n.used[c] = true
	return c
}

func (g *sgen) newDecl(p *Package, prefix string, under *Type) *Decl {
	g.nDecl++
	d := &Decl{Pkg: p, Name: g.names.typ(prefix, g.nDecl), Under: under}
	p.Decls = append(p.Decls, d)
	return d
}

// srcType generates a source type. pos: top field elem key val pointee
func (g *sgen) srcType(depth int, kind string) *Type {
	r := g.r
	if kind == "" {
		var choices []string
		if depth <= 0 {
			choices = []string{"basic", "basic", "named"}
		} else {
			choices = []string{"basic", "basic", "named", "ptr", "ptr", "slice", "slice", "array", "map", "map", "struct", "struct", "nstruct", "nstruct", "nstruct", "reuse", "nslice", "nmap", "narray", "generic"}
		}
		kind = choices[r.Intn(len(choices))]
	}
	switch kind {
	case "basic":
		return Basic(basics[r.Intn(len(basics))])
	case "named":
		b := basics[r.Intn(len(basics))]
		d := g.newDecl(g.src, "SB", Basic(b))
		if g.o.SkipCopy && r.Intn(2) == 0 && b != "bool" && b != "complex128" {
			// the type qualifies as an enum; where it occurs on both sides it is passed through by skipCopySameType
			// (member or not), everywhere else its partner has no members and the basic rule applies
			lit := func(i int) string {
				if b == "string" {
					return fmt.Sprintf("%q", fmt.Sprintf("m%d", i))
				}
				return fmt.Sprint(i)
			}
			d.Consts = []Const{{d.Name + "MemberA", lit(1)}, {d.Name + "MemberB", lit(2)}}
			g.enumLeaves = true
		}
		return Named(d)
	case "ptr":
		return Ptr(g.srcType(depth-1, ""))
	case "slice":
		return Slice(g.srcType(depth-1, ""))
	case "array":
		return Array(1+r.Intn(3), g.srcType(depth-1, ""))
	case "map":
		return Map(g.keyType(), g.srcType(depth-1, ""))
	case "struct":
		return g.structType(depth)
	case "nstruct":
		d := g.newDecl(g.src, "S", nil)
		d.Under = g.structType(depth)
		g.decls = append(g.decls, d)
		// recursion through pointer / slice / map
		if r.Intn(3) == 0 {
			st := d.Under
			self := Named(d)
			var rt *Type
			switch r.Intn(4) {
			case 0:
				rt = Ptr(self)
			case 1:
				rt = Slice(self)
			case 2:
				rt = Map(Basic("string"), self)
			default:
				rt = Slice(Ptr(self))
			}
			st.Fields = append(st.Fields, F(fmt.Sprintf("Rec%d", len(st.Fields)), rt))
		}
		return Named(d)
	case "nslice":
		return Named(g.newDecl(g.src, "SL", Slice(g.srcType(depth-1, ""))))
	case "narray":
		return Named(g.newDecl(g.src, "SA", Array(1+r.Intn(3), g.srcType(depth-1, ""))))
	case "generic":
		// an instantiated generic struct; the target instantiates the mirrored generic declaration
		if g.genS == nil {
			g.genS = g.newDecl(g.src, "GS", Struct(F("V", Basic("T")), F("L", Slice(Basic("T"))), F("N", Basic("int"))))
			g.genS.TypeParams = []string{"T"}
			g.genT = g.newDecl(g.tgt, "GT", Struct(F("V", Basic("T")), F("L", Slice(Basic("T"))), F("N", Basic("int"))))
			g.genT.TypeParams = []string{"T"}
		}
		return &Type{K: KNamed, Decl: g.genS, Args: []*Type{g.srcType(depth-1, "")}}
	case "nmap":
		return Named(g.newDecl(g.src, "SM", Map(g.keyType(), g.srcType(depth-1, ""))))
	case "reuse":
		if len(g.decls) > 0 {
			return Named(g.decls[r.Intn(len(g.decls))])
		}
		return g.srcType(depth, "nstruct")
	}
	panic("kind " + kind)
}

func (g *sgen) keyType() *Type {
	r := g.r
	switch r.Intn(7) {
	case 0:
		return Named(g.newDecl(g.src, "SK", Basic(keyBasics[r.Intn(len(keyBasics))])))
	case 1:
		if g.o.SkipCopy {
			return Array(2, Basic(keyBasics[r.Intn(len(keyBasics))]))
		}
		return Basic("string")
	case 2:
		return Struct(F("A", Basic("int")), F("B", Basic("string")))
	case 3:
		// keys that hold pointers: the converted key must point to a copy
		if g.o.PointerKeys {
			if r.Intn(2) == 0 {
				return Ptr(Basic(keyBasics[r.Intn(len(keyBasics))]))
			}
			return Struct(F("P", Ptr(Basic("int"))), F("B", Basic("string")))
		}
		return Basic("string")
	default:
		return Basic(keyBasics[r.Intn(len(keyBasics))])
	}
}

func (g *sgen) structType(depth int) *Type {
	n := g.r.Intn(4)
	if g.r.Intn(12) == 0 {
		n = 0
	} else {
		n++
	}
	st := &Type{K: KStruct}
	seen := map[string]bool{}
	for i := 0; i < n; i++ {
		name := g.names.field(i)
		if seen[name] {
			name = fmt.Sprintf("%s%d", name, i)
		}
		seen[name] = true
		if g.o.SamePkg && g.r.Intn(5) == 0 {
			name = "u" + name
		}
		f := F(name, g.srcType(depth-1, ""))
		if g.r.Intn(6) == 0 {
			f.Tag = fmt.Sprintf("json:\"%s,omitempty\" db:\"c%d\"", strings.ToLower(name), i)
		}
		st.Fields = append(st.Fields, f)
	}
	if !g.o.SamePkg && depth > 0 && g.r.Intn(6) == 0 {
		// an embedded struct: goverter treats it as a field named like the type, so the target embeds
		// (or declares) a same-named type of its own package
		g.embN++
		nm := fmt.Sprintf("Emb%d", g.embN)
		sd := &Decl{Pkg: g.src, Name: nm, Under: Struct(F("E", Basic("int")), F("G", Slice(Basic("string"))))}
		g.src.Decls = append(g.src.Decls, sd)
		td := &Decl{Pkg: g.tgt, Name: nm, Under: Struct(F("E", Basic("int")), F("G", Slice(Basic("string"))))}
		g.tgt.Decls = append(g.tgt.Decls, td)
		g.memo[sd] = td
		ef := &Field{Name: nm, T: Named(sd), Embedded: true}
		if g.r.Intn(3) == 0 {
			ef.T = Ptr(Named(sd))
		}
		if g.r.Intn(2) == 0 {
			ef.Tag = fmt.Sprintf("json:\"%s\"", strings.ToLower(nm))
		}
		st.Fields = append(st.Fields, ef)
	}
	return st
}

// derive builds a convertible target type for source type t.
// assignPos: the position is filled by an Assign (field / list element) rather than Build.
func (g *sgen) derive(t *Type, assignPos bool, depth int) *Type {
	r := g.r
	if t.K == KNamed && t.Decl.Under.K == KArray {
		// a named array converts to a slice like an unnamed one
		inner := Slice(g.derive(t.Decl.Under.Elem, true, depth+1))
		if assignPos && !g.o.AllowArrayAssign {
			return Ptr(inner)
		}
		return inner
	}
	if t.K == KArray && assignPos && !g.o.AllowArrayAssign {
		// [N]T -> []T at an assignment position is the known finding F-C02-array-assign;
		// a pointer target is built (allocated) instead of assigned.
		return Ptr(Slice(g.derive(t.Elem, true, depth+1)))
	}
	// identical type on both sides (deep copy unless skipCopySameType)
	identProb := 6
	if g.o.MethodSkipCopy {
		identProb = 2
	}
	if depth > 0 && r.Intn(identProb) == 0 && g.identicalOK(t) {
		return t
	}
	// T -> *T'
	if t.K != KPtr && r.Intn(8) == 0 {
		inner := g.derive(t, false, depth+1)
		if r.Intn(4) == 0 {
			return Ptr(Ptr(inner))
		}
		return Ptr(inner)
	}
	switch t.K {
	case KBasic:
		if r.Intn(3) == 0 {
			return Named(g.newDecl(g.tgt, "TB", Basic(t.Basic)))
		}
		return Basic(t.Basic)
	case KNamed:
		if len(t.Args) > 0 {
			return &Type{K: KNamed, Decl: g.genT, Args: []*Type{g.derive(t.Args[0], true, depth+1)}}
		}
		if d, ok := g.memo[t.Decl]; ok {
			return Named(d)
		}
		u := t.Decl.Under
		if u.K == KBasic {
			if r.Intn(3) == 0 {
				return Basic(u.Basic)
			}
			d := g.newDecl(g.tgt, "TB", Basic(u.Basic))
			g.memo[t.Decl] = d
			return Named(d)
		}
		prefix := map[Kind]string{KStruct: "T", KSlice: "TL", KMap: "TM"}[u.K]
		d := g.newDecl(g.tgt, prefix, nil)
		g.memo[t.Decl] = d
		g.open[t.Decl] = true
		d.Under = g.deriveUnder(u, depth+1)
		delete(g.open, t.Decl)
		return Named(d)
	case KPtr:
		if g.o.UseZero && r.Intn(4) == 0 && !g.reachesOpen(t.Elem) {
			// *T -> T'
			return g.derive(t.Elem, assignPos, depth+1)
		}
		return Ptr(g.derive(t.Elem, false, depth+1))
	default:
		return g.deriveUnder(t, depth)
	}
}

func (g *sgen) deriveUnder(t *Type, depth int) *Type {
	r := g.r
	if (g.o.SkipCopy || g.o.MethodSkipCopy) && (t.K == KSlice || t.K == KMap) && r.Intn(3) == 0 && g.identicalOK(t) {
		// a named target type whose underlying type is identical to the unnamed source type: assignable, NOT identical,
		// so skipCopySameType must not apply and the value must be deep-copied
		prefix := map[Kind]string{KSlice: "TAL", KMap: "TAM"}[t.K]
		return Named(g.newDecl(g.tgt, prefix, t))
	}
	switch t.K {
	case KSlice:
		return Slice(g.derive(t.Elem, true, depth+1))
	case KArray:
		return Slice(g.derive(t.Elem, true, depth+1))
	case KMap:
		return Map(g.deriveKey(t.Key), g.derive(t.Elem, false, depth+1))
	case KStruct:
		st := &Type{K: KStruct}
		for _, f := range t.Fields {
			if r.Intn(8) == 0 {
				continue // source-only field
			}
			ft := g.deriveField(f.T, depth+1)
			nf := F(f.Name, ft)
			if f.Embedded {
				// stays embedded only when the derived type is still the (pointer to the) same-named declaration
				base := ft
				if base.K == KPtr {
					base = base.Elem
				}
				nf.Embedded = base.K == KNamed && base.Decl.Name == f.Name && (ft.K != KPtr || ft.Elem.K == KNamed)
			}
			if f.Tag != "" {
				if r.Intn(2) == 0 {
					nf.Tag = "json:\"other\""
				} else {
					nf.Tag = f.Tag
				}
			}
			st.Fields = append(st.Fields, nf)
		}
		if len(st.Fields) > 1 && r.Intn(3) == 0 {
			i, j := r.Intn(len(st.Fields)), r.Intn(len(st.Fields))
			st.Fields[i], st.Fields[j] = st.Fields[j], st.Fields[i]
		}
		return st
	}
	return g.derive(t, false, depth)
}

func (g *sgen) deriveField(t *Type, depth int) *Type {
	// field position = assignment position
	return g.derive(t, true, depth)
}

func (g *sgen) deriveKey(t *Type) *Type {
	r := g.r
	switch t.K {
	case KBasic:
		if r.Intn(4) == 0 {
			return Named(g.newDecl(g.tgt, "TK", Basic(t.Basic)))
		}
		return Basic(t.Basic)
	case KNamed:
		if d, ok := g.memo[t.Decl]; ok {
			return Named(d)
		}
		d := g.newDecl(g.tgt, "TK", Basic(t.Decl.Under.Basic))
		g.memo[t.Decl] = d
		return Named(d)
	}
	return t
}

// reachesOpen: does t contain (by value) a named type whose target declaration is still under construction?
func (g *sgen) reachesOpen(t *Type) bool {
	switch t.K {
	case KNamed:
		return g.open[t.Decl]
	case KArray:
		return g.reachesOpen(t.Elem)
	case KStruct:
		for _, f := range t.Fields {
			if g.reachesOpen(f.T) {
				return true
			}
		}
	}
	return false
}

// identicalOK: may the same type be used on the target side?
func (g *sgen) identicalOK(t *Type) bool {
	switch t.K {
	case KArray:
		return false // [N]T -> [N]T has no rule without skipCopySameType
	case KStruct:
		for _, f := range t.Fields {
			if !g.identicalOK(f.T) {
				return false
			}
		}
		return true
	case KNamed:
		if len(t.Args) > 0 {
			return false
		}
		if g.memo[t.Decl] != nil {
			return false
		}
		return g.identicalDecl(t.Decl, map[*Decl]bool{})
	case KPtr, KSlice:
		return g.identicalOK(t.Elem)
	case KMap:
		return g.identicalOK(t.Key) && g.identicalOK(t.Elem)
	}
	return true
}

func (g *sgen) identicalDecl(d *Decl, seen map[*Decl]bool) bool {
	if seen[d] {
		return true
	}
	seen[d] = true
	return g.identicalUnder(d.Under, seen)
}

func (g *sgen) identicalUnder(t *Type, seen map[*Decl]bool) bool {
	switch t.K {
	case KArray:
		return false
	case KStruct:
		for _, f := range t.Fields {
			if !g.identicalUnder(f.T, seen) {
				return false
			}
		}
	case KNamed:
		if len(t.Args) > 0 || g.memo[t.Decl] != nil {
			return false
		}
		return g.identicalDecl(t.Decl, seen)
	case KPtr, KSlice:
		return g.identicalUnder(t.Elem, seen)
	case KMap:
		return g.identicalUnder(t.Key, seen) && g.identicalUnder(t.Elem, seen)
	}
	return true
}

var hostilePkgNames = []string{"source", "target", "context", "c", "i", "key", "value", "err", "fmt", "errors", "strings", "generated", "x", "types", "unnamed", "j", "source2", "pint"}

// Structural builds one case of the structural corpus.
func Structural(r *rand.Rand, name string, o StructOpts) *Case {
	c := &Case{Name: name, Root: "vcase/" + name}
	g := &sgen{r: r, o: o, memo: map[*Decl]*Decl{}, open: map[*Decl]bool{}, names: &namePool{r: r, hostile: o.Hostile, used: map[string]bool{}}}
	var convPkg *Package
	pkgName := func(def string) string {
		if !o.HostilePkgs {
			return def
		}
		for k := 0; k < 10; k++ {
			n := hostilePkgNames[r.Intn(len(hostilePkgNames))]
			if !g.names.used["pkg:"+n] {
				g.names.used["pkg:"+n] = true
				c.Feature("tag", appendTag(c.Features["tag"], "pkg:"+n))
				return n
			}
		}
		return def
	}
	if o.SamePkg {
		n := pkgName("p")
		p := &Package{Path: n, Name: n}
		g.src, g.tgt, convPkg = p, p, p
		c.Pkgs = []*Package{p}
	} else {
		sn, tn, cn := pkgName("src"), pkgName("tgt"), pkgName("conv")
		g.src = &Package{Path: sn, Name: sn}
		g.tgt = &Package{Path: tn, Name: tn}
		convPkg = &Package{Path: cn, Name: cn}
		c.Pkgs = []*Package{g.src, g.tgt, convPkg}
	}
	if o.Depth == 0 {
		o.Depth = 3
	}
	g.o = o
	nc := o.NConverters
	if nc < 1 {
		nc = 1
	}
	type pair struct{ s, t string }
	seenPairs := map[pair]bool{}
	for k := 0; k < nc; k++ {
		cvName := "Converter"
		if k > 0 {
			cvName = fmt.Sprintf("Converter%d", k+1)
		}
		cv := &Converter{Pkg: convPkg, File: "conv.go", Name: cvName, Format: o.Format}
		if k > 0 && o.Format == "variables" && r.Intn(2) == 0 {
			cv.File = fmt.Sprintf("conv%d.go", k+1)
			c.Feature("tag", appendTag(c.Features["tag"], "multi-file-pkg"))
		}
		flags := vref.Flags{SkipCopy: o.SkipCopy, UseZero: o.UseZero}
		if o.SkipCopy {
			cv.Lines = append(cv.Lines, "skipCopySameType")
		}

		if o.UseZero {
			cv.Lines = append(cv.Lines, "useZeroValueOnPointerInconsistency")
		}
		switch {
		case o.SamePkg && o.Format == "variables":
			cv.OutPkgPath, cv.OutPkgName = convPkg.Path, convPkg.Name
		case o.SamePkg:
			cv.Lines = append(cv.Lines, "output:file ./zz_generated.go")
			cv.OutPkgPath, cv.OutPkgName = convPkg.Path, convPkg.Name
		case o.Format == "variables":
			cv.OutPkgPath, cv.OutPkgName = convPkg.Path, convPkg.Name
		default:
			cv.OutPkgPath, cv.OutPkgName = convPkg.Path+"/generated", "generated"
			if o.CLIPackage {
				if k == 0 {
					c.Args = append(c.Args, "-g", "output:package "+c.Root+"/elsewhere:globalname")
				}
				cv.Lines = append(cv.Lines, "output:package "+c.Root+"/"+convPkg.Path+"/generated")
			}
			if k > 0 && r.Intn(2) == 0 {
				cv.Lines = append(cv.Lines, fmt.Sprintf("output:file ./generated/second%d.go", k))
				c.Feature("tag", appendTag(c.Features["tag"], "multi-file-pkg"))
			}
		}
		cv.ImplName = cvName + "Impl"
		n := o.NMethods
		if n == 0 {
			n = 1
		}
		if k > 0 {
			// separate converters must not see each other's declared methods: fresh memo for new types,
			// but reuse of earlier source decls stays possible (shared helper names across files)
			if r.Intn(2) == 0 {
				g.memo = map[*Decl]*Decl{}
			}
			seenPairs = map[pair]bool{}
		}
		for i := 0; i < n; i++ {
			var s, t *Type
			if (i > 0 || k > 0) && len(g.decls) > 0 && r.Intn(2) == 0 {
				d := g.decls[r.Intn(len(g.decls))]
				s = Named(d)
				if td, ok := g.memo[d]; ok {
					t = Named(td)
				} else {
					t = g.derive(s, false, 0)
				}
			} else {
				kind := ""
				if i == 0 && k == 0 {
					kind = o.TopKind
				}
				s = g.srcType(o.Depth, kind)
				t = g.derive(s, false, 0)
			}
			alias := func(p *Package) string { return p.Name }
			key := pair{s.Go(nil, alias), t.Go(nil, alias)}
			if seenPairs[key] {
				continue
			}
			seenPairs[key] = true
			mname := fmt.Sprintf("M%d", i)
			if k > 0 {
				mname = fmt.Sprintf("K%dM%d", k, i)
			}
			m := &Method{
				Name:   mname,
				Params: []Param{{Name: "source", T: s, Role: "source"}},
				Result: t,
				Spec:   &vref.MethodSpec{Name: mname, Roles: []string{"source"}, Flags: flags},
			}
			if s.K == KSlice && g.r.Intn(4) == 0 {
				// a variadic converter method: the emitted method must be variadic, too
				m.Params[0].Variadic = true
				c.Feature("variadic", "true")
			}
			if o.MethodSkipCopy && i == 0 && k == 0 {
				m.Lines = append(m.Lines, "skipCopySameType")
				m.Spec.Flags.SkipCopy = true
			}
			cv.Methods = append(cv.Methods, m)
		}
		if len(cv.Methods) == 0 {
			continue
		}
		mon := o.Monitors
		if mon == nil {
			mon = []string{"value", "intact"}
		}
		nv := o.NValues
		if nv == 0 {
			nv = 40
		}
		cv.Spec = &vref.Spec{Seed: o.Seed, NValues: nv, Monitors: mon, Conv: flags}
		c.Convs = append(c.Convs, cv)
	}
	c.Patterns = []string{"./" + convPkg.Path}
	c.Feature("format", o.Format)
	c.Feature("samepkg", fmt.Sprint(o.SamePkg))
	if g.enumLeaves {
		for _, cv := range c.Convs {
			cv.Lines = append(cv.Lines, "enum:unknown @ignore")
		}
		c.Feature("enumleaves", "true")
	}
	c.Feature("skipcopy", fmt.Sprint(o.SkipCopy))
	c.Feature("usezero", fmt.Sprint(o.UseZero))
	c.Feature("top", o.TopKind)
	c.Feature("converters", fmt.Sprint(len(c.Convs)))
	c.Feature("hostilepkgs", fmt.Sprint(o.HostilePkgs))
	c.Feature("methodskipcopy", fmt.Sprint(o.MethodSkipCopy))
	return c
}

func appendTag(cur, t string) string {
	if cur == "" {
		return t
	}
	return cur + "," + t
}

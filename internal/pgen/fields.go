package pgen

import (
	"fmt"
	"math/rand"
	"strings"

	"verif/vref"
)

// FieldOpts configures the field-settings corpus (C05).
type FieldOpts struct {
	Format  string
	Seed    int64
	NValues int
	// Negative selects a case that must be rejected: "" | unknownfield | badpath | automapnonstruct | ambiguous | ambiguousexact | nonstruct | overlap | autoambig
	Negative string
	// SkipCopy forces skipCopySameType; Kinds, when set, replaces the list the field kinds are drawn from.
	SkipCopy bool
	Kinds    []string
}

var leafBasics = []string{"int", "string", "bool", "float64", "int64", "uint8"}

// FieldCase builds one case of the field-settings corpus.
func FieldCase(r *rand.Rand, name string, o FieldOpts) *Case {
	c := &Case{Name: name, Root: "vcase/" + name}
	src := &Package{Path: "src", Name: "src"}
	tgt := &Package{Path: "tgt", Name: "tgt"}
	conv := &Package{Path: "conv", Name: "conv"}
	c.Pkgs = []*Package{src, tgt, conv}
	n := 0
	decl := func(p *Package, prefix string, under *Type) *Decl {
		n++
		d := &Decl{Pkg: p, Name: fmt.Sprintf("%s%d", prefix, n), Under: under}
		p.Decls = append(p.Decls, d)
		return d
	}
	leaf := func() *Type { return Basic(leafBasics[r.Intn(len(leafBasics))]) }
	// leafPair returns a convertible (source, target) pair of small types
	leafPair := func() (*Type, *Type) {
		switch r.Intn(8) {
		case 7:
			// pointer on both sides (below a pointer hop of a dotted path the leaf is then used as it is)
			b := leaf()
			return Ptr(b), Ptr(Basic(b.Basic))
		case 0:
			b := leaf()
			return Named(decl(src, "SB", b)), Named(decl(tgt, "TB", Basic(b.Basic)))
		case 1:
			b := leaf()
			return Slice(b), Slice(Basic(b.Basic))
		case 2:
			b := leaf()
			return b, Ptr(Basic(b.Basic))
		case 3:
			b := leaf()
			sd := decl(src, "SN", Struct(F("P", b), F("Q", Basic("string"))))
			td := decl(tgt, "TN", Struct(F("P", Basic(b.Basic)), F("Q", Basic("string"))))
			return Named(sd), Named(td)
		case 4:
			b := leaf()
			return Map(Basic("string"), b), Map(Basic("string"), Basic(b.Basic))
		default:
			b := leaf()
			return b, Basic(b.Basic)
		}
	}
	sStruct := &Type{K: KStruct}
	tStruct := &Type{K: KStruct}
	// with the variables format the output package is conv: S and T may live there, so that their unexported
	// fields are ACCESSIBLE to the emitted code (ignoreUnexported must skip them all the same)
	samePkg := o.Format == "variables" && r.Intn(3) == 0
	sp, tp := src, tgt
	if samePkg {
		sp, tp = conv, conv
	}
	S := decl(sp, "S", sStruct)
	T := decl(tp, "T", tStruct)
	flagsConv := vref.Flags{}
	flagsMeth := vref.Flags{}
	var convLines, methLines []string
	fields := map[string]vref.FieldSpec{}
	var autoMap [][]string
	features := map[string]bool{}
	setFlag := func(key string, set func(f *vref.Flags)) {
		// inheritable flags are written on the method or on the converter
		if r.Intn(2) == 0 {
			methLines = append(methLines, key)
			set(&flagsMeth)
		} else {
			convLines = append(convLines, key)
			set(&flagsConv)
			set(&flagsMeth)
		}
	}
	usedS, usedT := map[string]bool{}, map[string]bool{}
	fname := func(used map[string]bool, base string) string {
		nm := base
		for i := 2; used[strings.ToLower(nm)]; i++ {
			nm = fmt.Sprintf("%s%d", base, i)
		}
		used[strings.ToLower(nm)] = true
		return nm
	}
	needIgnoreCase, needIgnoreMissing, needIgnoreUnexported := false, false, false
	snapshot := false
	nf := 3 + r.Intn(5)
	kinds := []string{"same", "same", "rename", "recase", "nested", "nestedptr", "automap", "whole", "method", "ignore", "missing", "unexported", "exactwins", "exactmethod", "sourceonly", "allmissing", "snapshot"}
	if o.Kinds != nil {
		kinds = o.Kinds
	}
	for i := 0; i < nf; i++ {
		kind := kinds[r.Intn(len(kinds))]
		base := fmt.Sprintf("F%c", 'a'+i)
		features[kind] = true
		switch kind {
		case "same":
			st, tt := leafPair()
			nm := fname(usedS, base)
			usedT[strings.ToLower(nm)] = true
			sStruct.Fields = append(sStruct.Fields, F(nm, st))
			tStruct.Fields = append(tStruct.Fields, F(nm, tt))
		case "rename":
			st, tt := leafPair()
			sn, tn := fname(usedS, base+"Src"), fname(usedT, base+"Tgt")
			usedS[strings.ToLower(tn)] = true
			usedT[strings.ToLower(sn)] = true
			sStruct.Fields = append(sStruct.Fields, F(sn, st))
			tStruct.Fields = append(tStruct.Fields, F(tn, tt))
			methLines = append(methLines, "map "+sn+" "+tn)
			fields[tn] = vref.FieldSpec{Path: []string{sn}}
		case "recase":
			st, tt := leafPair()
			sn := fname(usedS, base+"UserID")
			tn := strings.Replace(sn, "UserID", "UserId", 1)
			usedT[strings.ToLower(tn)] = true
			sStruct.Fields = append(sStruct.Fields, F(sn, st))
			tStruct.Fields = append(tStruct.Fields, F(tn, tt))
			needIgnoreCase = true
		case "exactwins":
			// exact name and a differently cased candidate: the exact one wins under matchIgnoreCase
			st, tt := leafPair()
			sn := fname(usedS, base+"Exact")
			usedT[strings.ToLower(sn)] = true
			other := strings.ToUpper(sn)
			sStruct.Fields = append(sStruct.Fields, F(other, Basic("complex128")), F(sn, st))
			tStruct.Fields = append(tStruct.Fields, F(sn, tt))
			needIgnoreCase = true
		case "exactmethod":
			// an exact-name source method beats a differently cased source field under matchIgnoreCase
			b := leaf()
			mn := fname(usedS, base+"ID")
			usedT[strings.ToLower(mn)] = true
			loose := strings.Replace(mn, "ID", "Id", 1)
			sStruct.Fields = append(sStruct.Fields, F(loose, Basic("complex128")))
			S.Methods = append(S.Methods, fmt.Sprintf("func (s %s) %s() %s { return %s }", S.Name, mn, b.Basic, methodValue(b.Basic, len(S.Methods))))
			tStruct.Fields = append(tStruct.Fields, F(mn, Basic(b.Basic)))
			fields[mn] = vref.FieldSpec{Path: []string{mn}}
			needIgnoreCase = true
		case "nested", "nestedptr":
			st, tt := leafPair()
			depth := 1 + r.Intn(4)
			inner := Struct(F("Leaf", st), F("Other", Basic("int")))
			cur := Named(decl(src, "SIn", inner))
			path := []string{"Leaf"}
			viaPtr := false
			for d := 0; d < depth; d++ {
				wrapPtr := kind == "nestedptr" && (d == 0 || r.Intn(2) == 0)
				ft := cur
				if wrapPtr {
					ft = Ptr(cur)
					viaPtr = true
				}
				hop := fmt.Sprintf("Hop%d", d)
				cur = Named(decl(src, "SMid", Struct(F(hop, ft), F("Pad", Basic("bool")))))
				path = append([]string{hop}, path...)
			}
			sn := fname(usedS, base+"Nest")
			usedT[strings.ToLower(sn)] = true
			sStruct.Fields = append(sStruct.Fields, F(sn, cur))
			tn := fname(usedT, base+"Flat")
			usedS[strings.ToLower(tn)] = true
			if viaPtr && tt.K != KPtr {
				// the value arrives as a pointer (nil when an intermediate pointer is nil)
				tt = Ptr(tt)
			}
			tStruct.Fields = append(tStruct.Fields, F(tn, tt))
			full := append([]string{sn}, path...)
			methLines = append(methLines, "map "+strings.Join(full, ".")+" "+tn)
			fields[tn] = vref.FieldSpec{Path: full}
		case "automap":
			if len(autoMap) > 0 {
				i--
				continue
			}
			st1, tt1 := leafPair()
			st2, tt2 := leafPair()
			a1, a2 := fname(usedT, base+"AutoOne"), fname(usedT, base+"AutoTwo")
			usedS[strings.ToLower(a1)], usedS[strings.ToLower(a2)] = true, true
			inner := Named(decl(src, "SAuto", Struct(F(a1, st1), F(a2, st2))))
			holder := fname(usedS, base+"Holder")
			usedT[strings.ToLower(holder)] = true
			hp := inner
			if r.Intn(2) == 0 {
				hp = Ptr(inner)
				// through a pointer the auto-mapped values arrive as pointers
				if tt1.K != KPtr {
					tt1 = Ptr(tt1)
				}
				if tt2.K != KPtr {
					tt2 = Ptr(tt2)
				}
			}
			if r.Intn(2) == 0 {
				// an exact name inside the holder beats a differently cased direct field under matchIgnoreCase
				st3, tt3 := leafPair()
				a3 := fname(usedT, base+"AutoZip")
				usedS[strings.ToLower(a3)] = true
				inner.Decl.Under.Fields = append(inner.Decl.Under.Fields, F(a3, st3))
				if hp.K == KPtr && tt3.K != KPtr {
					tt3 = Ptr(tt3)
				}
				sStruct.Fields = append(sStruct.Fields, F(strings.ToUpper(a3), Basic("complex128")))
				tStruct.Fields = append(tStruct.Fields, F(a3, tt3))
				needIgnoreCase = true
				features["exactauto"] = true
			}
			sStruct.Fields = append(sStruct.Fields, F(holder, hp))
			tStruct.Fields = append(tStruct.Fields, F(a1, tt1), F(a2, tt2))
			methLines = append(methLines, "autoMap "+holder)
			autoMap = append(autoMap, []string{holder})
		case "whole":
			// map . Tgt: the whole source converts into a nested target struct
			tn := fname(usedT, base+"Whole")
			usedS[strings.ToLower(tn)] = true
			sub := &Type{K: KStruct}
			wd := decl(tgt, "TWhole", sub)
			tStruct.Fields = append(tStruct.Fields, F(tn, Named(wd)))
			methLines = append(methLines, "map . "+tn)
			fields[tn] = vref.FieldSpec{Path: []string{"."}}
			// the sub struct takes a field that exists on the source: added after the loop
			c.Feature("whole", tn+"/"+wd.Name)
		case "snapshot":
			// map . FIELD where FIELD has the very type of the source: still a deep copy
			if snapshot || samePkg {
				i--
				continue
			}
			snapshot = true
			tn := fname(usedT, base+"Snap")
			usedS[strings.ToLower(tn)] = true
			tStruct.Fields = append(tStruct.Fields, F(tn, Named(S)))
			methLines = append(methLines, "map . "+tn)
			fields[tn] = vref.FieldSpec{Path: []string{"."}}
		case "method":
			b := leaf()
			mn := fname(usedS, base+"Calc")
			usedT[strings.ToLower(mn)] = true
			recv := "s " + S.Name
			if r.Intn(2) == 0 {
				recv = "s *" + S.Name
			}
			S.Methods = append(S.Methods, fmt.Sprintf("func (%s) %s() %s { return %s }", recv, mn, b.Basic, methodValue(b.Basic, len(S.Methods))))
			if r.Intn(2) == 0 {
				tStruct.Fields = append(tStruct.Fields, F(mn, Basic(b.Basic)))
				fields[mn] = vref.FieldSpec{Path: []string{mn}}
			} else {
				tn := fname(usedT, base+"FromCalc")
				usedS[strings.ToLower(tn)] = true
				tStruct.Fields = append(tStruct.Fields, F(tn, Basic(b.Basic)))
				methLines = append(methLines, "map "+mn+" "+tn)
				fields[tn] = vref.FieldSpec{Path: []string{mn}}
			}
		case "ignore":
			_, tt := leafPair()
			tn := fname(usedT, base+"Ign")
			tStruct.Fields = append(tStruct.Fields, F(tn, tt))
			if r.Intn(2) == 0 {
				// the source has a same-named field that must NOT be copied
				usedS[strings.ToLower(tn)] = true
				st, _ := leafPair()
				_ = st
				sStruct.Fields = append(sStruct.Fields, F(tn, tt))
			} else {
				usedS[strings.ToLower(tn)] = true
			}
			methLines = append(methLines, "ignore "+tn)
			fields[tn] = vref.FieldSpec{Ignore: true}
		case "missing":
			_, tt := leafPair()
			tn := fname(usedT, base+"Miss")
			usedS[strings.ToLower(tn)] = true
			tStruct.Fields = append(tStruct.Fields, F(tn, tt))
			needIgnoreMissing = true
		case "allmissing":
			// every field of an inline unnamed struct (map value / slice element) lacks a source: all skipped
			nm := fname(usedS, base+"AllMiss")
			usedT[strings.ToLower(nm)] = true
			if r.Intn(2) == 0 {
				sStruct.Fields = append(sStruct.Fields, F(nm, Map(Basic("string"), Struct(F("A", Basic("int"))))))
				tStruct.Fields = append(tStruct.Fields, F(nm, Map(Basic("string"), Struct(F("B", Basic("int"))))))
			} else {
				sStruct.Fields = append(sStruct.Fields, F(nm, Slice(Struct(F("A", Basic("int"))))))
				tStruct.Fields = append(tStruct.Fields, F(nm, Slice(Struct(F("B", Basic("int")), F("C", Basic("string"))))))
			}
			needIgnoreMissing = true
		case "unexported":
			tn := "u" + fname(usedT, base+"hidden")
			usedS[strings.ToLower(tn)] = true
			tStruct.Fields = append(tStruct.Fields, F(tn, Basic("int")))
			if samePkg {
				// a same-named accessible source field exists: it still must not be copied
				sStruct.Fields = append(sStruct.Fields, F(tn, Basic("int")))
				features["unexported-samepkg"] = true
			}
			needIgnoreUnexported = true
		case "sourceonly":
			st, _ := leafPair()
			sn := fname(usedS, base+"Only")
			usedT[strings.ToLower(sn)] = true
			sStruct.Fields = append(sStruct.Fields, F(sn, st))
		}
	}
	if len(sStruct.Fields) == 0 {
		sStruct.Fields = append(sStruct.Fields, F("Base", Basic("int")))
		tStruct.Fields = append(tStruct.Fields, F("Base", Basic("int")))
	}
	// the target of `map . X` copies the first plain source field
	if w := c.Features["whole"]; w != "" {
		parts := strings.Split(w, "/")
		for _, d := range tgt.Decls {
			if d.Name == parts[1] {
				for _, f0 := range sStruct.Fields {
					// the first exported plain source field
					if f0.T.K == KBasic && f0.Name[0] >= 'A' && f0.Name[0] <= 'Z' {
						d.Under.Fields = append(d.Under.Fields, F(f0.Name, Basic(f0.T.Basic)))
						break
					}
				}
			}
		}
		delete(c.Features, "whole")
	}
	// isolation: a nested struct re-uses a field name the outer method configures; the setting must not leak
	var isoMethod *Method
	var configured []string
	for tn := range fields {
		configured = append(configured, tn)
	}
	if len(configured) > 0 && r.Intn(2) == 0 {
		sortedJoin(configured)
		tn := configured[r.Intn(len(configured))]
		if strings.ToLower(tn[:1]) != tn[:1] { // exported names only
			switch r.Intn(2) {
			case 0:
				features["iso-unnamed"] = true
				sStruct.Fields = append(sStruct.Fields, F("IsoU", Struct(F(tn, Basic("int")), F("Keep", Basic("string")))))
				tStruct.Fields = append(tStruct.Fields, F("IsoU", Struct(F(tn, Basic("int")), F("Keep", Basic("string")))))
			default:
				features["iso-named"] = true
				sd := decl(src, "SIso", Struct(F(tn, Basic("int")), F("Other", Basic("string")), F("Keep", Basic("bool"))))
				td := decl(tgt, "TIso", Struct(F(tn, Basic("int")), F("Other", Basic("string")), F("Keep", Basic("bool"))))
				sStruct.Fields = append(sStruct.Fields, F("IsoN", Named(sd)))
				tStruct.Fields = append(tStruct.Fields, F("IsoN", Named(td)))
				if r.Intn(2) == 0 {
					// its own declared method with a different setting
					isoMethod = &Method{Name: "MIso", Params: []Param{{Name: "source", T: Named(sd), Role: "source"}}, Result: Named(td), Lines: []string{"ignore Other"},
						Spec: &vref.MethodSpec{Name: "MIso", Roles: []string{"source"}, Fields: map[string]vref.FieldSpec{"Other": {Ignore: true}}}}
				}
			}
		}
	}
	if o.SkipCopy || r.Intn(4) == 0 {
		// passed-through positions must be the only shared memory
		convLines = append(convLines, "skipCopySameType")
		flagsConv.SkipCopy, flagsMeth.SkipCopy = true, true
		features["skipcopy"] = true
	}
	if needIgnoreCase {
		setFlag("matchIgnoreCase", func(f *vref.Flags) { f.MatchIgnoreCase = true })
	}
	if needIgnoreMissing {
		setFlag("ignoreMissing", func(f *vref.Flags) { f.IgnoreMissing = true })
	}
	if needIgnoreUnexported {
		setFlag("ignoreUnexported", func(f *vref.Flags) { f.IgnoreUnexported = true })
	}
	r.Shuffle(len(methLines), func(i, j int) { methLines[i], methLines[j] = methLines[j], methLines[i] })
	cv := &Converter{Pkg: conv, File: "conv.go", Name: "Converter", Format: o.Format, Lines: convLines, OutPkgPath: "conv/generated", OutPkgName: "generated", ImplName: "ConverterImpl"}
	if o.Format == "variables" {
		cv.OutPkgPath, cv.OutPkgName = "conv", "conv"
	}
	sT, tT := Named(S), Named(T)
	ptrVariant := r.Intn(4) == 0
	if ptrVariant {
		sT, tT = Ptr(sT), Ptr(tT)
	}
	m0 := &Method{Name: "M0", Params: []Param{{Name: "source", T: sT, Role: "source"}}, Result: tT, Lines: methLines,
		Spec: &vref.MethodSpec{Name: "M0", Roles: []string{"source"}, Flags: flagsMeth, Fields: fields, AutoMap: autoMap}}
	cv.Methods = append(cv.Methods, m0)
	// reuse from a slice / map / pointer position
	if !ptrVariant && r.Intn(2) == 0 {
		var s2, t2 *Type
		switch r.Intn(3) {
		case 0:
			s2, t2 = Slice(Named(S)), Slice(Named(T))
		case 1:
			s2, t2 = Map(Basic("string"), Named(S)), Map(Basic("string"), Named(T))
		default:
			s2, t2 = Ptr(Named(S)), Ptr(Named(T))
		}
		if !(t2.K == KPtr && len(methLines) > 0) { // pointer variant would overlap with the struct method's field settings
			cv.Methods = append(cv.Methods, &Method{Name: "M1", Params: []Param{{Name: "source", T: s2, Role: "source"}}, Result: t2,
				Spec: &vref.MethodSpec{Name: "M1", Roles: []string{"source"}, Flags: flagsConv}})
			features["reuse"] = true
		}
	}
	if isoMethod != nil {
		isoMethod.Spec.Flags = flagsConv
		cv.Methods = append(cv.Methods, isoMethod)
	}
	nv := o.NValues
	if nv == 0 {
		nv = 30
	}
	cv.Spec = &vref.Spec{Seed: o.Seed, NValues: nv, Monitors: []string{"value", "intact", "alias", "mutate"}, Conv: flagsConv}
	c.Convs = []*Converter{cv}
	c.Patterns = []string{"./conv"}
	var fl []string
	for k := range features {
		fl = append(fl, k)
	}
	c.Feature("fieldkinds", sortedJoin(fl))
	c.Feature("format", o.Format)
	c.Feature("ptrmethod", fmt.Sprint(ptrVariant))
	return c
}

func methodValue(basic string, k int) string {
	switch basic {
	case "string":
		return fmt.Sprintf("\"calc%d\"", k)
	case "bool":
		return "true"
	case "float64":
		return fmt.Sprintf("%d.5", 70+k)
	}
	return fmt.Sprint(70 + k)
}

func sortedJoin(l []string) string {
	for i := 0; i < len(l); i++ {
		for j := i + 1; j < len(l); j++ {
			if l[j] < l[i] {
				l[i], l[j] = l[j], l[i]
			}
		}
	}
	return strings.Join(l, "+")
}

// NegativeFieldCases are programs whose field settings cannot take effect: generation must fail.
func NegativeFieldCases() []*Case {
	foreign := func(name, neg, conv string) *Case {
		c := RawCase("n_"+name, map[string]string{
			"other/types.go": "package other\n\ntype Out struct{ A int; secret string }\n",
			"p/input.go":     "package p\n\nimport \"vcase/n_" + name + "/other\"\n\ntype In struct{ A int; S string }\nfunc F(s string) string { return s }\nfunc G() string { return \"g\" }\n\n" + conv,
		}, nil, []string{"./p"})
		c.Feature("negative", neg)
		c.Note = conv
		return c
	}
	foreignSrc := func(name, neg, conv string) *Case {
		c := RawCase("n_"+name, map[string]string{
			"other/types.go": "package other\n\ntype Src struct{ A int; audit Audit }\ntype Audit struct{ By string }\n",
			"p/input.go":     "package p\n\nimport \"vcase/n_" + name + "/other\"\n\ntype Out struct{ A int; By string }\n\n" + conv,
		}, nil, []string{"./p"})
		c.Feature("negative", neg)
		c.Note = conv
		return c
	}
	extra := []*Case{
		foreignSrc("map_path_through_unexported", "map path whose FIRST element is an unexported field of a struct in another package",
			"// goverter:converter\ntype Converter interface {\n\t// goverter:map audit.By By\n\tConvert(source other.Src) Out\n}\n"),
		foreignSrc("automap_unexported", "autoMap of an unexported field of a struct in another package",
			"// goverter:converter\ntype Converter interface {\n\t// goverter:autoMap audit\n\tConvert(source other.Src) Out\n}\n"),
		foreign("map_func_unexported_target", "map|FUNC onto an unexported field of a struct in another package",
			"// goverter:converter\ntype Converter interface {\n\t// goverter:map S secret | F\n\tConvert(source In) other.Out\n}\n"),
		foreign("map_nosource_func_unexported_target", "map TARGET|FUNC (no source) onto an unexported field of a struct in another package",
			"// goverter:converter\ntype Converter interface {\n\t// goverter:map secret | G\n\tConvert(source In) other.Out\n}\n"),
		foreign("map_unexported_target", "map onto an unexported field of a struct in another package",
			"// goverter:converter\ntype Converter interface {\n\t// goverter:map S secret\n\tConvert(source In) other.Out\n}\n"),
	}
	return append(negativeFieldCasesLocal(), extra...)
}

func negativeFieldCasesLocal() []*Case {
	mk := func(name, neg, types, conv string) *Case {
		c := RawCase("n_"+name, map[string]string{"p/input.go": "package p\n\n" + types + "\n" + conv}, nil, []string{"./p"})
		c.Feature("negative", neg)
		c.Note = conv
		return c
	}
	base := "type In struct{ A int; B string; N Nested; P *Nested }\ntype Nested struct{ X int }\ntype Out struct{ A int; B string }\n"
	iface := func(lines ...string) string {
		var sb strings.Builder
		sb.WriteString("// goverter:converter\ntype Converter interface {\n")
		for _, l := range lines {
			sb.WriteString("\t// goverter:" + l + "\n")
		}
		sb.WriteString("\tConvert(source In) Out\n}\n")
		return sb.String()
	}
	return []*Case{
		// the structs live in the interface's own package, the code is emitted into ./generated: unexported source fields
		// are out of reach there, whatever names them
		mk("map_unexported_source_ownpkg", "map names an unexported source field of a struct in the interface's package (output elsewhere)",
			"type In struct{ A int; secret string }\ntype Out struct{ A int; Token string }\n", iface("map secret Token")),
		mk("map_path_unexported_source_ownpkg", "map path ends in an unexported field of a struct in the interface's package (output elsewhere)",
			"type In struct{ A int; N Hidden }\ntype Hidden struct{ secret string }\ntype Out struct{ A int; Token string }\n", iface("map N.secret Token")),
		mk("matchignorecase_unexported_source_ownpkg", "the only case-insensitive candidate is unexported and the output lives elsewhere",
			"type In struct{ A int; token string }\ntype Out struct{ A int; Token string }\n", iface("matchIgnoreCase")),
		mk("ignore_unknown", "ignore names a field the target does not have", base, iface("ignore Nope")),
		mk("map_unknown_target", "map names a target field that does not exist", base, iface("map A Nope")),
		mk("map_unknown_source", "map names a source field that does not exist", base, iface("map Nope A")),
		mk("map_path_nonstruct", "map path continues through a non-struct", base, iface("map A.X B")),
		mk("map_path_missing", "map path element does not exist", base, iface("map N.Y A")),
		mk("automap_nonstruct", "autoMap of a non-struct field", base, iface("autoMap A")),
		mk("automap_unknown", "autoMap of a field that does not exist", base, iface("autoMap Nope")),
		mk("ambiguous_loose", "two case-insensitive candidates and no exact one",
			"type In struct{ USERID int; UserID int }\ntype Out struct{ UserId int }\n", iface("matchIgnoreCase")),
		mk("nonstruct_target", "field setting on a method whose target is not a struct",
			"type In struct{ A int }\ntype Out struct{ A int }\n", "// goverter:converter\ntype Converter interface {\n\t// goverter:ignore A\n\tConvert(source []In) []Out\n}\n"),
		mk("overlap_pointer", "field settings on the pointer variant while the struct variant is what gets used",
			"type In struct{ A int }\ntype Out struct{ A int; B int }\n", "// goverter:converter\ntype Converter interface {\n\t// goverter:ignore B\n\tConvertPtr(source *In) *Out\n\tConvertList(source []In) []Out\n}\n"),
		mk("map_dot_target", "map with a dotted target", base, iface("map A A.B")),
		mk("ignore_unknown_second", "second of two ignored fields does not exist", base, iface("ignore A Nope")),
		mk("map_unknown_with_func", "map with function onto a non-existent target", base+"func F(i int) int { return i }\n", iface("map A Nope | F")),
		mk("ambiguous_loose_ignoremissing", "two case-insensitive candidates must stay an error under ignoreMissing",
			"type In struct{ USERID int; UserID int }\ntype Out struct{ UserId int }\n", iface("matchIgnoreCase", "ignoreMissing")),
		mk("automap_ambiguous_ignoremissing", "a name reachable through two autoMap paths must stay an error under ignoreMissing",
			"type In struct{ One Part; Two Part }\ntype Part struct{ V int }\ntype Out struct{ V int }\n", iface("autoMap One", "autoMap Two", "ignoreMissing")),
		mk("ambiguous_field_method", "a field and a method are case-insensitive candidates and no exact one exists",
			"type In struct{ Userid int }\nfunc (In) USERID() int { return 1 }\ntype Out struct{ UserId int }\n", iface("matchIgnoreCase")),
		mk("ambiguous_loose_direct_automap", "a direct field and an autoMap field are case-insensitive candidates and no exact one exists",
			"type In struct{ ZIPCODE int; Addr Address }\ntype Address struct{ Zipcode int }\ntype Out struct{ ZipCode int }\n", iface("matchIgnoreCase", "autoMap Addr")),
		mk("ambiguous_loose_two_automap", "two autoMap fields are case-insensitive candidates and no exact one exists",
			"type In struct{ A1 Address; A2 Address2 }\ntype Address struct{ Zipcode int }\ntype Address2 struct{ ZIPCODE int }\ntype Out struct{ ZipCode int }\n", iface("matchIgnoreCase", "autoMap A1", "autoMap A2")),
		mk("map_unknown_source_ignoremissing", "map names a source field that does not exist (must stay an error under ignoreMissing)", base, iface("ignoreMissing", "map Nope A")),
		mk("map_unknown_path_ignoremissing", "map names a source path whose last element does not exist (must stay an error under ignoreMissing)", base, iface("ignoreMissing", "map N.Nope A")),
		mk("map_twice", "two goverter:map settings for one target field", base, iface("map A A", "map N.X A")),
		mk("map_twice_func", "goverter:map with a function and a plain goverter:map for one target field", base+"func Up(i int) int { return i + 1 }\n", iface("map A A | Up", "map N.X A")),
		mk("map_then_ignore", "goverter:map and goverter:ignore for one target field", base, iface("map A A", "ignore A")),
		mk("ignore_then_map", "goverter:ignore and goverter:map for one target field", base, iface("ignore A", "map N.X A")),
		mk("map_path_with_sourceless_func", "a source path given to a function that takes no source", base+"func NoArg() int { return 1 }\n", iface("map Bogus.Path A | NoArg")),
		mk("map_hidden_under_ignoreunexported", "explicit map onto an unexported field of another package under ignoreUnexported",
			"type In struct{ A int; B string }\ntype Out struct{ A int; B string }\n", "// goverter:converter\n// goverter:ignoreUnexported\ntype Converter interface {\n\t// goverter:map B hidden\n\tConvert(source In) Out2\n}\ntype Out2 struct{ A int; hidden string }\n"),
		mk("delegate_with_field_settings", "field settings on a method that delegates to an extend function of the same signature",
			"type In struct{ A int; B string }\ntype Out struct{ A int; B string }\nfunc Ext(i In) Out { return Out{} }\n", "// goverter:converter\n// goverter:extend Ext\ntype Converter interface {\n\t// goverter:ignore B\n\tConvert(source In) Out\n}\n"),
		mk("delegate_underlying_with_field_settings", "field settings on a method that useUnderlyingTypeMethods delegates to an extend function for the underlying struct",
			"type In struct{ A string }\ntype Out struct{ A string; X int }\nfunc Ext(s struct{ A string }) Out { return Out{A: s.A, X: 42} }\n", "// goverter:converter\n// goverter:useUnderlyingTypeMethods\n// goverter:extend Ext\ntype Converter interface {\n\t// goverter:ignore X\n\tConvert(source In) Out\n}\n"),
		mk("delegate_underlying_target_with_field_settings", "field settings on a method that useUnderlyingTypeMethods delegates to an extend function returning the underlying struct",
			"type In struct{ A string }\ntype Out struct{ A string; X int }\nfunc Ext(s In) struct{ A string; X int } { return struct{ A string; X int }{A: s.A, X: 42} }\n", "// goverter:converter\n// goverter:useUnderlyingTypeMethods\n// goverter:extend Ext\ntype Converter interface {\n\t// goverter:map A X | Len\n\tConvert(source In) Out\n}\nfunc Len(s string) int { return len(s) }\n"),
		mk("overlap_default_assign_path", "field settings on the pointer variant while a sibling S -> *T with goverter:default converts the struct inline",
			"type In struct{ Name, Title string }\ntype Out struct{ Title string }\nfunc NewOut() *Out { return &Out{} }\n", "// goverter:converter\ntype Converter interface {\n\t// goverter:default NewOut\n\tConvertA(source In) *Out\n\t// goverter:map Name Title\n\tConvertB(source *In) *Out\n}\n"),
		mk("overlap_unnamed", "field settings on the pointer variant of an unnamed struct pair while a sibling converts the structs inline",
			"type W struct{ I struct{ Name, Title string } }\ntype WT struct{ I struct{ Title string } }\n", "// goverter:converter\ntype Converter interface {\n\tConvertA(source W) WT\n\t// goverter:map Name Title\n\tConvertB(source *struct{ Name, Title string }) *struct{ Title string }\n}\n"),
		mk("delegate_with_automap", "autoMap on a method that delegates to an extend function of the same signature",
			"type In struct{ A int; H Hold }\ntype Hold struct{ B string }\ntype Out struct{ A int; B string }\nfunc Ext(i In) Out { return Out{} }\n", "// goverter:converter\n// goverter:extend Ext\ntype Converter interface {\n\t// goverter:autoMap H\n\tConvert(source In) Out\n}\n"),
		mk("settings_on_passthrough", "field settings on a method whose identical types are passed through by skipCopySameType",
			"type T struct{ A int; B string }\n", "// goverter:converter\n// goverter:skipCopySameType\ntype Converter interface {\n\t// goverter:ignore B\n\tCopy(source T) T\n}\n"),
		mk("overlap_automap", "autoMap on the pointer variant while the struct variant is what gets used",
			"type In struct{ A int; H Hold }\ntype Hold struct{ B int }\ntype Out struct{ A int; B int }\n", "// goverter:converter\n// goverter:ignoreMissing\ntype Converter interface {\n\t// goverter:autoMap H\n\tConvertPtr(source *In) *Out\n\tConvertList(source []In) []Out\n}\n"),
		mk("overlap_matchignorecase", "matchIgnoreCase on the pointer variant while the struct variant is what gets used",
			"type In struct{ A int; BVAL int }\ntype Out struct{ A int; Bval int }\n", "// goverter:converter\n// goverter:ignoreMissing\ntype Converter interface {\n\t// goverter:matchIgnoreCase\n\tConvertPtr(source *In) *Out\n\tConvertList(source []In) []Out\n}\n"),
		mk("ignore_wrong_case", "ignore names a target field in the wrong case (settings are case-sensitive also under matchIgnoreCase)",
			"type In struct{ A int; Secret string }\ntype Out struct{ A int; Secret string }\n", "// goverter:converter\ntype Converter interface {\n\t// goverter:matchIgnoreCase\n\t// goverter:ignore secret\n\tConvert(source In) Out\n}\n"),
		mk("map_wrong_case", "map names a target field in the wrong case under matchIgnoreCase",
			"type In struct{ A int; Nick string; DisplayName string }\ntype Out struct{ A int; DisplayName string }\n", "// goverter:converter\n// goverter:matchIgnoreCase\ntype Converter interface {\n\t// goverter:map Nick displayname\n\tConvert(source In) Out\n}\n"),
		mk("ptrptr_target", "field settings on a method whose target is a pointer to a pointer to a struct",
			"type In struct{ A int; S string }\ntype Out struct{ A int; S string }\n", "// goverter:converter\ntype Converter interface {\n\t// goverter:ignore S\n\tConvert(source In) **Out\n}\n"),
		mk("ptrptr_target_unknown", "unknown field in settings on a **struct target",
			"type In struct{ A int }\ntype Out struct{ A int }\n", "// goverter:converter\ntype Converter interface {\n\t// goverter:map A Nope\n\tConvert(source In) **Out\n}\n"),
		mk("ignore_misspelt", "ignore of a misspelt field next to valid settings", base, iface("map A A", "ignore Bb")),
		mk("unexported_source_method", "unexported source method read from another package",
			"type In struct{ A int }\nfunc (In) name() string { return \"x\" }\ntype Out struct{ A int; Name string }\n", iface("map name Name")),
		mk("automap_ambiguous", "same field name reachable through two autoMap paths",
			"type In struct{ One Part; Two Part }\ntype Part struct{ V int }\ntype Out struct{ V int }\n", iface("autoMap One", "autoMap Two")),
	}
}

package pgen

import (
	"fmt"
	"math/rand"
	"strings"

	"verif/vref"
)

// GraphOpts configures the type-graph corpus: several named structs that refer to each other through pointers,
// slices and maps (cycles included) with fallible / context-taking custom functions on leaf types. Every struct pair
// below the root gets a GENERATED helper; helpers call each other through the lookup table, and their signatures
// change while goverter builds them (a helper learns late that it has to return an error or needs a context).
type GraphOpts struct {
	Format    string
	Seed      int64
	NValues   int
	WrapMode  string // none | wrapErrors | using
	MaxFaults int
	Fallible  bool // force the fallible leaf function
}

// GraphCase builds one case of the type-graph corpus.
func GraphCase(r *rand.Rand, name string, o GraphOpts) *Case {
	c := &Case{Name: name, Root: "vcase/" + name}
	ty := &Package{Path: "ty", Name: "ty"}
	conv := &Package{Path: "conv", Name: "conv", Files: map[string]string{}}
	c.Pkgs = []*Package{ty, conv}
	decl := func(name string, under *Type) *Decl {
		d := &Decl{Pkg: ty, Name: name, Under: under}
		ty.Decls = append(ty.Decls, d)
		return d
	}
	n := 2 + r.Intn(4)
	// struct names are drawn from a pool so that the alphabetical build order of the helpers varies
	pool := []string{"Alpha", "Beta", "Node", "Item", "Zed", "Mid", "Kid", "Top", "Box", "Yak"}
	r.Shuffle(len(pool), func(i, j int) { pool[i], pool[j] = pool[j], pool[i] })
	sU := make([]*Type, n)
	tU := make([]*Type, n)
	sD := make([]*Decl, n)
	tD := make([]*Decl, n)
	for i := 0; i < n; i++ {
		sU[i], tU[i] = &Type{K: KStruct}, &Type{K: KStruct}
		sD[i] = decl(pool[i]+"In", sU[i])
		tD[i] = decl(pool[i]+"Out", tU[i])
	}
	ctxD := decl("Ctx", Struct(F("ID", Basic("string"))))
	// leaves
	val := decl("Val", Basic("string"))
	valOut := decl("ValOut", Basic("string"))
	num := decl("Num", Basic("string"))
	numOut := decl("NumOut", Basic("string"))
	var funcs strings.Builder
	var specFuncs []*vref.FuncSpec
	callables := map[string]string{}
	var convLines []string
	useCtx := r.Intn(3) == 0
	fallibleVal := r.Intn(4) != 0 || o.Fallible
	// Val -> ValOut: fallible extend (the fault id is the number inside the generated string)
	if fallibleVal {
		fmt.Fprintf(&funcs, "func ParseVal(v ty.Val) (ty.ValOut, error) {\n\tvar id int64\n\tfmt.Sscanf(string(v), \"s%%d\", &id)\n\tif err := vref.Fail(id); err != nil {\n\t\treturn \"\", err\n\t}\n\treturn ty.ValOut(\"val<\" + string(v) + \">\"), nil\n}\n\n")
	} else {
		fmt.Fprintf(&funcs, "func ParseVal(v ty.Val) ty.ValOut {\n\treturn ty.ValOut(\"val<\" + string(v) + \">\")\n}\n\n")
	}
	convLines = append(convLines, "extend ParseVal")
	specFuncs = append(specFuncs, &vref.FuncSpec{Key: "fn:ParseVal", Kind: "extend", Roles: []string{"source"}})
	callables["fn:ParseVal"] = "conv.ParseVal"
	// Num -> NumOut: optional, context-taking extend
	if useCtx {
		fmt.Fprintf(&funcs, "// goverter:context ctx\nfunc StampNum(v ty.Num, ctx ty.Ctx) ty.NumOut {\n\treturn ty.NumOut(string(v) + \"@\" + ctx.ID)\n}\n\n")
		convLines = append(convLines, "extend StampNum")
		specFuncs = append(specFuncs, &vref.FuncSpec{Key: "fn:StampNum", Kind: "extend", Roles: []string{"source", "ctx"}})
		callables["fn:StampNum"] = "conv.StampNum"
	}
	// edges
	edgeKinds := []string{"ptr", "ptr", "slice", "map", "direct", "sliceptr", "mapslice", "namedslice", "namedmap"}
	hasVal := false
	for i := 0; i < n; i++ {
		var fs, ft []*Field
		ne := 1 + r.Intn(3)
		for k := 0; k < ne; k++ {
			j := r.Intn(n)
			ek := edgeKinds[r.Intn(len(edgeKinds))]
			if ek == "direct" && j <= i {
				ek = "ptr" // a direct edge backwards would make the type invalid
			}
			fn := fmt.Sprintf("E%d%s", k, pool[j])
			var a, b *Type
			switch ek {
			case "ptr":
				a, b = Ptr(Named(sD[j])), Ptr(Named(tD[j]))
			case "slice":
				a, b = Slice(Named(sD[j])), Slice(Named(tD[j]))
			case "map":
				a, b = Map(Basic("string"), Named(sD[j])), Map(Basic("string"), Named(tD[j]))
			case "direct":
				a, b = Named(sD[j]), Named(tD[j])
			case "sliceptr":
				a, b = Slice(Ptr(Named(sD[j]))), Slice(Ptr(Named(tD[j])))
			case "mapslice":
				a, b = Map(Basic("int"), Slice(Named(sD[j]))), Map(Basic("int"), Slice(Named(tD[j])))
			case "namedslice":
				// the recursion runs through a named container type, i.e. through one more generated helper
				a = Named(decl(fmt.Sprintf("L%d%d%sIn", i, k, pool[j]), Slice(Named(sD[j]))))
				b = Named(decl(fmt.Sprintf("L%d%d%sOut", i, k, pool[j]), Slice(Named(tD[j]))))
			case "namedmap":
				a = Named(decl(fmt.Sprintf("M%d%d%sIn", i, k, pool[j]), Map(Basic("string"), Named(sD[j]))))
				b = Named(decl(fmt.Sprintf("M%d%d%sOut", i, k, pool[j]), Map(Basic("string"), Named(tD[j]))))
			}
			fs = append(fs, F(fn, a))
			ft = append(ft, F(fn, b))
			c.Feature("edge", ek)
		}
		// leaves: the LAST struct always has the fallible leaf, others sometimes
		if i == n-1 || r.Intn(3) == 0 {
			switch r.Intn(3) {
			case 0:
				fs, ft = append(fs, F("V", Named(val))), append(ft, F("V", Named(valOut)))
			case 1:
				fs, ft = append(fs, F("V", Slice(Named(val)))), append(ft, F("V", Slice(Named(valOut))))
			default:
				fs, ft = append(fs, F("V", Ptr(Named(val)))), append(ft, F("V", Ptr(Named(valOut))))
			}
			hasVal = true
		}
		if useCtx && (i == n-1 || r.Intn(3) == 0) {
			fs, ft = append(fs, F("N", Named(num))), append(ft, F("N", Named(numOut)))
		}
		fs, ft = append(fs, F("Plain", Basic("int"))), append(ft, F("Plain", Basic("int")))
		perm := r.Perm(len(fs))
		for _, p := range perm {
			sU[i].Fields = append(sU[i].Fields, fs[p])
			tU[i].Fields = append(tU[i].Fields, ft[p])
		}
	}
	_ = hasVal
	fallible := fallibleVal
	wm := o.WrapMode
	if !fallible {
		wm = "none"
	}
	switch wm {
	case "wrapErrors":
		convLines = append(convLines, "wrapErrors")
	case "using":
		convLines = append(convLines, "wrapErrorsUsing vcase/errs")
	}
	flags := vref.Flags{}
	// root method: wrapper struct around the first node so that EVERY node struct gets a generated helper
	wS := decl("WrapIn", Struct(F("Root", Named(sD[0])), F("Tag", Basic("string"))))
	wT := decl("WrapOut", Struct(F("Root", Named(tD[0])), F("Tag", Basic("string"))))
	params := []Param{{Name: "source", T: Named(wS), Role: "source"}}
	roles := []string{"source"}
	var methLines []string
	if useCtx {
		p := Param{Name: "cx", T: Named(ctxD), Role: "ctx"}
		if r.Intn(2) == 0 {
			params = append([]Param{p}, params...)
			roles = append([]string{"ctx"}, roles...)
		} else {
			params = append(params, p)
			roles = append(roles, "ctx")
		}
		methLines = append(methLines, "context cx")
	}
	cv := &Converter{Pkg: conv, File: "conv.go", Name: "Converter", Format: o.Format, Lines: convLines, OutPkgPath: "conv/generated", OutPkgName: "generated", ImplName: "ConverterImpl", Callables: callables}
	if o.Format == "variables" {
		cv.OutPkgPath, cv.OutPkgName = "conv", "conv"
	}
	cv.Methods = append(cv.Methods, &Method{Name: "M0", Params: params, Result: Named(wT), HasErr: fallible, Lines: methLines,
		Spec: &vref.MethodSpec{Name: "M0", Roles: roles, Flags: flags, HasErr: fallible, WrapMode: wm}})
	// optionally a second explicit method for one of the inner structs (it is then called by the helpers)
	if r.Intn(3) == 0 {
		k := r.Intn(n)
		p2 := []Param{{Name: "source", T: Named(sD[k]), Role: "source"}}
		roles2 := []string{"source"}
		var l2 []string
		if useCtx {
			p2 = append(p2, Param{Name: "cx", T: Named(ctxD), Role: "ctx"})
			roles2 = append(roles2, "ctx")
			l2 = append(l2, "context cx")
		}
		cv.Methods = append(cv.Methods, &Method{Name: "MInner", Params: p2, Result: Named(tD[k]), HasErr: fallible, Lines: l2,
			Spec: &vref.MethodSpec{Name: "MInner", Roles: roles2, Flags: flags, HasErr: fallible, WrapMode: wm}})
		c.Feature("inner", "explicit")
	}
	conv.Files["funcs.go"] = "package conv\n\nimport (\n\t\"fmt\"\n\t\"vcase/vref\"\n\t\"" + c.Root + "/ty\"\n)\n\nvar _ = fmt.Sprint\nvar _ = vref.Fail\nvar _ ty.Val\n\n" + funcs.String()
	if o.Format != "variables" {
		cv.GlueImports = []string{fmt.Sprintf("conv %q", c.Root+"/conv")}
	} else {
		for k, ex := range callables {
			callables[k] = strings.Replace(ex, "conv.", "gen.", 1)
		}
	}
	nv := o.NValues
	if nv == 0 {
		nv = 12
	}
	mon := []string{"value", "intact"}
	if fallible {
		mon = append(mon, "faults")
	}
	cv.Spec = &vref.Spec{Seed: o.Seed, NValues: nv, Monitors: mon, Conv: flags, Funcs: specFuncs, MaxFaults: o.MaxFaults}
	c.Convs = []*Converter{cv}
	c.Patterns = []string{"./conv"}
	c.Feature("hooks", fmt.Sprintf("graph%d,fallible=%v,ctx=%v", n, fallible, useCtx))
	c.Feature("format", o.Format)
	c.Feature("wrap", wm+"@conv")
	c.Feature("fallible", fmt.Sprint(fallible))
	switch wm {
	case "wrapErrors":
		c.AllowImports = []string{"fmt"}
	case "using":
		c.AllowImports = []string{"vcase/errs"}
	}
	return c
}

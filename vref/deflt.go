package vref

import (
	"fmt"
	"reflect"
)

// runDefault judges methods configured with `default FUNC` (and optionally default:update):
// the method starts from FUNC's result instead of the zero value.
func runDefault(o *Out, spec *Spec, r *Ref, m *MethodSpec) {
	fn := r.Callables[m.Name]
	ctor, ok := r.Callables[m.Default]
	ev := &MethodEvent{Ev: "method", Case: spec.Case, Method: m.Name}
	defer func() { ev.NViol += len(ev.Violations); o.Emit(ev) }()
	if !ok {
		ev.AbstainWhy = "constructor callable missing"
		return
	}
	addViol := func(v Violation) {
		if len(ev.Violations) < 6 {
			ev.Violations = append(ev.Violations, v)
		} else {
			ev.NViol++
		}
	}
	ft := fn.Type()
	srcIdx := -1
	for i := 0; i < ft.NumIn(); i++ {
		if m.Roles[i] == "source" {
			srcIdx = i
		}
	}
	S, T := ft.In(srcIdx), ft.Out(0)
	ev.SrcType, ev.TgtType = S.String(), T.String()
	TS := T
	if TS.Kind() == reflect.Ptr {
		TS = TS.Elem()
	}
	SS := S
	if SS.Kind() == reflect.Ptr {
		SS = SS.Elem()
	}
	g := NewGen(spec.Seed*107 + 3)
	g.Share = false
	n := spec.NValues
	if n < 8 {
		n = 8
	}
	cspec := r.Funcs[m.Default]
	for i := 0; i < n; i++ {
		switch i % 4 {
		case 0:
			g.Mode = GenFull
		case 1:
			g.Mode = GenZero
		default:
			g.Mode = GenRandom
		}
		src := g.Value(S)
		if g.Mode == GenRandom && SS.Kind() == reflect.Struct {
			base := src
			if S.Kind() == reflect.Ptr {
				if src.IsNil() {
					base = reflect.Value{}
				} else {
					base = src.Elem()
				}
			}
			if base.IsValid() {
				for f := 0; f < base.NumField(); f++ {
					if g.R.Intn(3) == 0 {
						fv := field(base, f)
						fv.Set(reflect.Zero(fv.Type()))
					}
				}
			}
		}
		if S.Kind() == reflect.Ptr && i%5 == 1 {
			src = reflect.Zero(S)
		}
		srcStr := Format(src)
		args := make([]reflect.Value, ft.NumIn())
		r.Ctx = map[reflect.Type]reflect.Value{}
		WalkCtx = r.Ctx
		for a := 0; a < ft.NumIn(); a++ {
			if a == srcIdx {
				args[a] = src
				continue
			}
			cg := NewGen(spec.Seed + int64(i*11+a))
			cg.Mode = GenFull
			cv := cg.Value(ft.In(a))
			args[a] = cv
			r.Ctx[ft.In(a)] = cv
		}
		ev.Values++
		res, perr, pstack := safeCall(fn, args)
		if perr != "" {
			ev.Panics++
			addViol(Violation{Kind: "panic", Method: m.Name, ValueI: i, Detail: perr + "\n" + pstack, Source: srcStr})
			continue
		}
		if len(res) == 2 && !res[1].IsNil() {
			addViol(Violation{Kind: "unexpected_error", Method: m.Name, ValueI: i, Detail: res[1].Interface().(error).Error(), Source: srcStr})
			continue
		}
		out := res[0]
		// FUNC's value for the same arguments
		startV, err := r.callFunc(cspec, ctor, src, ctor.Type().Out(0), nil)
		if err != nil {
			ev.Abstained++
			ev.AbstainWhy = err.Error()
			continue
		}
		start := startV
		if start.Kind() == reflect.Ptr {
			if start.IsNil() {
				ev.Abstained++
				ev.AbstainWhy = "constructor returned nil"
				continue
			}
			start = start.Elem()
		}
		got := out
		if got.Kind() == reflect.Ptr {
			if got.IsNil() {
				addViol(Violation{Kind: "default_nil_result", Method: m.Name, ValueI: i, Detail: "result is nil although FUNC returns a value", Source: srcStr})
				continue
			}
			got = got.Elem()
		}
		ev.Judged++
		ev.NonTrivial++
		startStr := Format(start)
		bad := func(kind, why string) {
			addViol(Violation{Kind: kind, Method: m.Name, ValueI: i, Detail: why, Source: srcStr, Got: Format(got), Want: "FUNC value " + startStr})
		}
		srcNil := (S.Kind() == reflect.Ptr || S.Kind() == reflect.Slice || S.Kind() == reflect.Map) && src.IsNil()
		if srcNil {
			if ok, p := Equal(got, start); !ok {
				bad("default_nil_source", "nil source must return FUNC's result unchanged, differs at "+p)
			}
			continue
		}
		if TS.Kind() == reflect.Slice || TS.Kind() == reflect.Map {
			// a non-nil container is converted as usual
			want, err := r.Method(&MethodSpec{Name: m.Name, Roles: m.Roles, Flags: m.Flags}, src, T)
			if err != nil {
				ev.Abstained++
				ev.AbstainWhy = err.Error()
				continue
			}
			if ok, p := Equal(out, want); !ok {
				bad("value", "non-nil source container must be converted, differs at "+p)
			}
			continue
		}
		sbase := src
		if S.Kind() == reflect.Ptr {
			sbase = src.Elem()
		}
		// replace vs overlay
		overlay := true
		updateGuards := false
		switch {
		case S.Kind() != reflect.Ptr && T.Kind() != reflect.Ptr:
			overlay, updateGuards = true, false
		case S.Kind() != reflect.Ptr && T.Kind() == reflect.Ptr:
			overlay, updateGuards = true, true
		case m.Flags.DefaultUpdate:
			overlay, updateGuards = true, true
		default:
			overlay = false
		}
		if TS.Kind() != reflect.Struct {
			continue
		}
		for f := 0; f < TS.NumField(); f++ {
			tf := TS.Field(f)
			fs := m.Fields[tf.Name]
			gf := field(got, f)
			stf := field(start, f)
			if fs.Ignore {
				if overlay {
					if ok, p := Equal(gf, stf); !ok {
						bad("default_ignored_field", fmt.Sprintf("ignored field %s must keep FUNC's value, differs at %s", tf.Name, p))
					}
				} else if !isZeroDeep(gf) {
					// a non-nil source replaces FUNC's result: ignored fields are zero
					bad("default_replace", fmt.Sprintf("without default:update a non-nil source replaces FUNC's result, but ignored field %s is not zero", tf.Name))
				}
				continue
			}
			if fs.Func != "" && len(fs.Path) == 1 {
				// a field computed by map SOURCE FIELD | FUNC
				sf, ok := SS.FieldByName(fs.Path[0])
				if !ok {
					continue
				}
				sv := field(sbase, sf.Index[0])
				if overlay && updateGuards && isZeroDeep(sv) {
					cat := zeroCategory(sv.Type())
					if (cat == "basic" && m.Flags.IZBasic) || (cat == "struct" && m.Flags.IZStruct) || (cat == "nillable" && m.Flags.IZNillable) {
						if ok, p := Equal(gf, stf); !ok {
							bad("default_update_zero", fmt.Sprintf("zero-valued source of the function-mapped field %s (selected category) must keep FUNC's value, differs at %s", tf.Name, p))
						}
					}
					continue
				}
				want, err := r.callFunc(r.Funcs[fs.Func], r.Callables[fs.Func], sv, tf.Type, nil)
				if err != nil {
					ev.Abstained++
					ev.AbstainWhy = err.Error()
					continue
				}
				if ok, p := Equal(gf, want); !ok {
					bad("default_value", fmt.Sprintf("function-mapped field %s must equal FUNC(source field), differs at %s", tf.Name, p))
				}
				continue
			}
			sf, ok := SS.FieldByName(tf.Name)
			if !ok {
				if m.Flags.IgnoreMissing && overlay {
					// a field without source is left unassigned: it keeps FUNC's value
					if ok, p := Equal(gf, stf); !ok {
						bad("default_ignored_field", fmt.Sprintf("field %s has no source (ignoreMissing) and must keep FUNC's value, differs at %s", tf.Name, p))
					}
				}
				continue
			}
			sv := field(sbase, sf.Index[0])
			zero := isZeroDeep(sv)
			if overlay && updateGuards && zero {
				cat := zeroCategory(sv.Type())
				selected := (cat == "basic" && m.Flags.IZBasic) || (cat == "struct" && m.Flags.IZStruct) || (cat == "nillable" && m.Flags.IZNillable)
				if selected {
					if ok, p := Equal(gf, stf); !ok {
						bad("default_update_zero", fmt.Sprintf("zero-valued source field %s of a selected category must keep FUNC's value, differs at %s", tf.Name, p))
					}
				}
				continue // otherwise not judged (same reasoning as update methods)
			}
			if zero && overlay && (sv.Kind() == reflect.Ptr || sv.Kind() == reflect.Slice || sv.Kind() == reflect.Map) {
				continue // nil containers are skipped by their nil guard: not judged
			}
			want, err := r.Field(m, sv, tf.Type, nil)
			if err != nil {
				ev.Abstained++
				ev.AbstainWhy = err.Error()
				continue
			}
			if ok, p := Equal(gf, want); !ok {
				bad("default_value", fmt.Sprintf("mapped field %s must equal the conversion of the source field, differs at %s", tf.Name, p))
			}
		}
		if i == 0 {
			ev.SampleSrc, ev.SampleRes = srcStr, Format(got)
		}
	}
}

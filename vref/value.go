// Package vref is the runtime side of the verification harness. It is copied
// verbatim into every scratch module (std only) and linked together with the
// code emitted by goverter. It generates values by reflection, computes the
// reference result of a conversion, compares, and monitors memory sharing.
package vref

import (
	"fmt"
	"math"
	"math/rand"
	"reflect"
	"sort"
	"strconv"
	"strings"
	"unsafe"
)

// field returns field i of struct v, readable (and settable when v is addressable).
func field(v reflect.Value, i int) reflect.Value {
	f := v.Field(i)
	if v.Type().Field(i).PkgPath != "" || !f.CanInterface() {
		if f.CanAddr() {
			return reflect.NewAt(f.Type(), unsafe.Pointer(f.UnsafeAddr())).Elem()
		}
		// not addressable: copy the struct into addressable memory
		c := reflect.New(v.Type()).Elem()
		c.Set(forceIface(v))
		return reflect.NewAt(f.Type(), unsafe.Pointer(c.Field(i).UnsafeAddr())).Elem()
	}
	return f
}

// forceIface makes a value usable with Set even when it carries the
// read-only flag from an unexported field.
func forceIface(v reflect.Value) reflect.Value {
	if v.CanInterface() {
		return v
	}
	if v.CanAddr() {
		return reflect.NewAt(v.Type(), unsafe.Pointer(v.UnsafeAddr())).Elem()
	}
	return v
}

// Addressable returns an addressable copy of v.
func Addressable(v reflect.Value) reflect.Value {
	c := reflect.New(v.Type()).Elem()
	c.Set(forceIface(v))
	return c
}

// ---------------------------------------------------------------------------
// Value generation

// GenMode selects systematic shapes.
type GenMode int

const (
	GenRandom   GenMode = iota
	GenZero             // the zero value
	GenEmpty            // all containers non-nil and empty, pointers non-nil
	GenFull             // everything non-nil, containers with >=1 element, basics non-zero
	GenExtremes         // like full but numbers at their extremes
)

// Gen generates values.
type Gen struct {
	R        *rand.Rand
	Mode     GenMode
	MaxDepth int
	// NilAt, when >= 0, makes the NilAt-th nillable position (pointer, slice, map) nil
	// and everything else full.
	NilAt    int
	nilCount int
	pool     map[reflect.Type][]reflect.Value
	Share    bool
	leaf     int64
	// NoNaN avoids NaN (used for map keys always).
	// Enum members by type name: values to prefer for named basics.
	Enums map[string][]any
	// UniqueLeaves makes every int/string leaf distinct (ids for fault plans).
	UniqueLeaves bool
	// Leaves records path -> leaf id when UniqueLeaves.
}

func NewGen(seed int64) *Gen {
	return &Gen{R: rand.New(rand.NewSource(seed)), MaxDepth: 5, NilAt: -1, pool: map[reflect.Type][]reflect.Value{}}
}

// NillableCount returns how many nillable positions the last Value call visited.
func (g *Gen) NillableCount() int { return g.nilCount }

// Value generates a value of type t.
func (g *Gen) Value(t reflect.Type) reflect.Value {
	g.nilCount = 0
	g.pool = map[reflect.Type][]reflect.Value{}
	v := reflect.New(t).Elem()
	g.fill(v, 0, false)
	return v
}

func (g *Gen) nilHere(depth int) bool {
	idx := g.nilCount
	g.nilCount++
	if g.NilAt >= 0 {
		return idx == g.NilAt || depth >= g.MaxDepth
	}
	switch g.Mode {
	case GenZero:
		return true
	case GenEmpty, GenFull, GenExtremes:
		return depth >= g.MaxDepth
	}
	if depth >= g.MaxDepth {
		return true
	}
	return g.R.Intn(5) == 0
}

func (g *Gen) length(depth int) int {
	if depth >= g.MaxDepth {
		return 0
	}
	switch g.Mode {
	case GenEmpty:
		return 0
	case GenFull, GenExtremes:
		return 2
	}
	if g.NilAt >= 0 {
		return 2
	}
	switch g.R.Intn(6) {
	case 0:
		return 0
	case 1:
		return 1
	case 2:
		return 2
	case 3:
		return 3
	default:
		return g.R.Intn(5)
	}
}

func (g *Gen) fill(v reflect.Value, depth int, mapKey bool) {
	t := v.Type()
	if g.Mode == GenZero && g.NilAt < 0 {
		return
	}
	switch t.Kind() {
	case reflect.Bool:
		switch g.Mode {
		case GenFull, GenExtremes:
			v.SetBool(true)
		case GenEmpty:
		default:
			v.SetBool(g.NilAt >= 0 || g.R.Intn(2) == 0)
		}
	case reflect.Int, reflect.Int8, reflect.Int16, reflect.Int32, reflect.Int64:
		if g.enum(v) {
			return
		}
		bits := t.Bits()
		switch g.Mode {
		case GenEmpty:
		case GenExtremes:
			if g.R.Intn(2) == 0 {
				v.SetInt(-1 << (bits - 1))
			} else {
				v.SetInt(1<<(bits-1) - 1)
			}
		case GenFull:
			v.SetInt(g.nextLeaf() % (1 << (bits - 2)))
		default:
			if g.NilAt >= 0 || g.UniqueLeaves {
				v.SetInt(g.nextLeaf() % (1 << (bits - 2)))
				return
			}
			switch g.R.Intn(8) {
			case 0:
				v.SetInt(0)
			case 1:
				v.SetInt(-1 << (bits - 1))
			case 2:
				v.SetInt(1<<(bits-1) - 1)
			case 3:
				v.SetInt(-1)
			default:
				v.SetInt(g.nextLeaf() % (1 << (bits - 2)))
			}
		}
	case reflect.Uint, reflect.Uint8, reflect.Uint16, reflect.Uint32, reflect.Uint64, reflect.Uintptr:
		if g.enum(v) {
			return
		}
		bits := t.Bits()
		var max uint64 = math.MaxUint64
		if bits < 64 {
			max = 1<<bits - 1
		}
		switch g.Mode {
		case GenEmpty:
		case GenExtremes:
			v.SetUint(max)
		case GenFull:
			v.SetUint(uint64(g.nextLeaf()) % (max/2 + 1))
		default:
			if g.NilAt >= 0 || g.UniqueLeaves {
				v.SetUint(uint64(g.nextLeaf()) % (max/2 + 1))
				return
			}
			switch g.R.Intn(6) {
			case 0:
				v.SetUint(0)
			case 1:
				v.SetUint(max)
			default:
				v.SetUint(uint64(g.nextLeaf()) % (max/2 + 1))
			}
		}
	case reflect.Float32, reflect.Float64:
		if g.enum(v) {
			return
		}
		switch g.Mode {
		case GenEmpty:
		case GenExtremes:
			if t.Kind() == reflect.Float32 {
				v.SetFloat(math.MaxFloat32)
			} else {
				v.SetFloat(-math.MaxFloat64)
			}
		case GenFull:
			v.SetFloat(float64(g.nextLeaf()) + 0.5)
		default:
			if g.NilAt >= 0 {
				v.SetFloat(float64(g.nextLeaf()) + 0.5)
				return
			}
			switch g.R.Intn(8) {
			case 0:
				v.SetFloat(0)
			case 1:
				v.SetFloat(math.Copysign(0, -1))
			case 2:
				if mapKey {
					v.SetFloat(1)
				} else {
					v.SetFloat(math.NaN())
				}
			case 3:
				v.SetFloat(math.Inf(1))
			case 4:
				v.SetFloat(math.SmallestNonzeroFloat64)
			default:
				v.SetFloat(float64(g.nextLeaf()) + 0.25)
			}
		}
	case reflect.Complex64, reflect.Complex128:
		if g.Mode == GenEmpty {
			return
		}
		v.SetComplex(complex(float64(g.nextLeaf()), float64(g.nextLeaf())))
	case reflect.String:
		if g.enum(v) {
			return
		}
		switch g.Mode {
		case GenEmpty:
		case GenFull, GenExtremes:
			v.SetString(fmt.Sprintf("s%d", g.nextLeaf()))
		default:
			if g.NilAt >= 0 || g.UniqueLeaves {
				v.SetString(fmt.Sprintf("s%d", g.nextLeaf()))
				return
			}
			switch g.R.Intn(6) {
			case 0:
				v.SetString("")
			case 1:
				v.SetString("\x00\xffé \n")
			default:
				v.SetString(fmt.Sprintf("s%d", g.nextLeaf()))
			}
		}
	case reflect.Ptr:
		if g.nilHere(depth) {
			return
		}
		if g.Share && g.Mode == GenRandom && g.NilAt < 0 {
			if p := g.pool[t]; len(p) > 0 && g.R.Intn(3) == 0 {
				v.Set(p[g.R.Intn(len(p))])
				return
			}
		}
		p := reflect.New(t.Elem())
		g.fill(p.Elem(), depth+1, mapKey)
		v.Set(p)
		g.pool[t] = append(g.pool[t], p)
	case reflect.Slice:
		if g.nilHere(depth) {
			return
		}
		if g.Share && g.Mode == GenRandom && g.NilAt < 0 {
			if p := g.pool[t]; len(p) > 0 && g.R.Intn(3) == 0 {
				s := p[g.R.Intn(len(p))]
				// sometimes a sub-slice sharing the backing array
				if s.Len() > 1 && g.R.Intn(2) == 0 {
					s = s.Slice(0, s.Len()-1)
				}
				v.Set(s)
				return
			}
		}
		n := g.length(depth)
		extra := 0
		if g.Mode == GenRandom && g.NilAt < 0 && g.R.Intn(3) == 0 {
			extra = g.R.Intn(3)
		}
		s := reflect.MakeSlice(t, n, n+extra)
		for i := 0; i < n; i++ {
			g.fill(s.Index(i), depth+1, mapKey)
		}
		v.Set(s)
		g.pool[t] = append(g.pool[t], s)
	case reflect.Array:
		for i := 0; i < t.Len(); i++ {
			g.fill(v.Index(i), depth+1, mapKey)
		}
	case reflect.Map:
		if g.nilHere(depth) {
			return
		}
		if g.Share && g.Mode == GenRandom && g.NilAt < 0 {
			if p := g.pool[t]; len(p) > 0 && g.R.Intn(3) == 0 {
				v.Set(p[g.R.Intn(len(p))])
				return
			}
		}
		n := g.length(depth)
		m := reflect.MakeMapWithSize(t, n)
		for i := 0; i < n; i++ {
			k := reflect.New(t.Key()).Elem()
			saveMode, saveNil := g.Mode, g.NilAt
			// keys: always full random without nils so that key conversion stays injective
			if g.Mode == GenZero || g.Mode == GenEmpty {
				g.Mode = GenFull
			}
			g.fillKey(k, depth+1)
			g.Mode, g.NilAt = saveMode, saveNil
			e := reflect.New(t.Elem()).Elem()
			g.fill(e, depth+1, false)
			m.SetMapIndex(k, e)
		}
		v.Set(m)
		g.pool[t] = append(g.pool[t], m)
	case reflect.Struct:
		for i := 0; i < t.NumField(); i++ {
			g.fill(field(v, i), depth+1, mapKey)
		}
	case reflect.UnsafePointer:
		// an opaque handle: nil or the address of a fresh word (never followed by the monitors)
		if g.Mode == GenEmpty || (g.Mode == GenRandom && g.R.Intn(3) == 0) {
			return
		}
		x := new(int64)
		*x = g.nextLeaf()
		v.SetPointer(unsafe.Pointer(x))
	case reflect.Interface, reflect.Func, reflect.Chan:
		if g.nilHere(depth) {
			return
		}
		switch t.Kind() {
		case reflect.Chan:
			if t.ChanDir() == reflect.BothDir {
				v.Set(reflect.MakeChan(t, 1))
			}
		case reflect.Func:
			ft := t
			v.Set(reflect.MakeFunc(ft, func(args []reflect.Value) []reflect.Value {
				out := make([]reflect.Value, ft.NumOut())
				for i := range out {
					out[i] = reflect.Zero(ft.Out(i))
				}
				return out
			}))
		case reflect.Interface:
			if t.NumMethod() == 0 {
				x := int(g.nextLeaf())
				v.Set(reflect.ValueOf(&x))
			}
		}
	}
}

// fillKey fills a map key: never nil pointers (pgen does not produce pointer keys), never NaN.
func (g *Gen) fillKey(v reflect.Value, depth int) {
	save := g.NilAt
	cnt := g.nilCount
	g.NilAt = -1
	if g.Mode == GenRandom {
		// unique keys: use leaf counter based values
		g.Mode = GenFull
		g.fill(v, depth, true)
		g.Mode = GenRandom
	} else {
		g.fill(v, depth, true)
	}
	g.NilAt = save
	g.nilCount = cnt
}

func (g *Gen) nextLeaf() int64 {
	g.leaf++
	return g.leaf + 100
}

// enum picks a member or neighbour value for named basics with members.
func (g *Gen) enum(v reflect.Value) bool {
	if g.Enums == nil {
		return false
	}
	t := v.Type()
	if t.PkgPath() == "" {
		return false
	}
	vals, ok := g.Enums[t.PkgPath()+"."+t.Name()]
	if !ok || len(vals) == 0 {
		return false
	}
	if g.Mode == GenEmpty {
		return true
	}
	if g.Mode == GenRandom && g.NilAt < 0 && g.R.Intn(4) == 0 {
		return false // a non-member value
	}
	pick := vals[g.R.Intn(len(vals))]
	setBasic(v, pick)
	return true
}

func setBasic(v reflect.Value, x any) {
	txt := fmt.Sprint(x)
	switch v.Kind() {
	case reflect.String:
		v.SetString(txt)
	case reflect.Int, reflect.Int8, reflect.Int16, reflect.Int32, reflect.Int64:
		if f, ok := x.(float64); ok {
			v.SetInt(int64(f))
			return
		}
		n, _ := strconv.ParseInt(txt, 10, 64)
		v.SetInt(n)
	case reflect.Uint, reflect.Uint8, reflect.Uint16, reflect.Uint32, reflect.Uint64:
		if f, ok := x.(float64); ok {
			v.SetUint(uint64(f))
			return
		}
		n, _ := strconv.ParseUint(txt, 10, 64)
		v.SetUint(n)
	case reflect.Float32, reflect.Float64:
		if f, ok := x.(float64); ok {
			v.SetFloat(f)
			return
		}
		f, _ := strconv.ParseFloat(txt, 64)
		if v.Kind() == reflect.Float32 {
			f = float64(float32(f))
		}
		v.SetFloat(f)
	}
}

// ---------------------------------------------------------------------------
// Deep comparison (bit exact, nil != empty, reads unexported fields)

// Equal compares a and b; on mismatch it returns the path of the first difference.
func Equal(a, b reflect.Value) (bool, string) {
	return equal(a, b, "", map[[2]unsafe.Pointer]bool{}, 0)
}

func equal(a, b reflect.Value, path string, seen map[[2]unsafe.Pointer]bool, depth int) (bool, string) {
	if a.IsValid() != b.IsValid() {
		return false, path + ": validity differs"
	}
	if !a.IsValid() {
		return true, ""
	}
	if a.Type() != b.Type() {
		return false, fmt.Sprintf("%s: type %s != %s", path, a.Type(), b.Type())
	}
	if depth > 200 {
		return true, ""
	}
	switch a.Kind() {
	case reflect.Bool:
		if a.Bool() != b.Bool() {
			return false, fmt.Sprintf("%s: %v != %v", path, a.Bool(), b.Bool())
		}
	case reflect.Int, reflect.Int8, reflect.Int16, reflect.Int32, reflect.Int64:
		if a.Int() != b.Int() {
			return false, fmt.Sprintf("%s: %d != %d", path, a.Int(), b.Int())
		}
	case reflect.Uint, reflect.Uint8, reflect.Uint16, reflect.Uint32, reflect.Uint64, reflect.Uintptr:
		if a.Uint() != b.Uint() {
			return false, fmt.Sprintf("%s: %d != %d", path, a.Uint(), b.Uint())
		}
	case reflect.Float32, reflect.Float64:
		if math.Float64bits(a.Float()) != math.Float64bits(b.Float()) {
			// NaN payloads may differ through float32<->float64; treat NaN==NaN
			if math.IsNaN(a.Float()) && math.IsNaN(b.Float()) {
				return true, ""
			}
			return false, fmt.Sprintf("%s: %v != %v", path, a.Float(), b.Float())
		}
	case reflect.Complex64, reflect.Complex128:
		if a.Complex() != b.Complex() {
			return false, fmt.Sprintf("%s: %v != %v", path, a.Complex(), b.Complex())
		}
	case reflect.String:
		if a.String() != b.String() {
			return false, fmt.Sprintf("%s: %q != %q", path, a.String(), b.String())
		}
	case reflect.Ptr:
		if a.IsNil() != b.IsNil() {
			return false, fmt.Sprintf("%s: nil-ness differs (%v vs %v)", path, a.IsNil(), b.IsNil())
		}
		if a.IsNil() {
			return true, ""
		}
		key := [2]unsafe.Pointer{a.UnsafePointer(), b.UnsafePointer()}
		if seen[key] {
			return true, ""
		}
		seen[key] = true
		return equal(a.Elem(), b.Elem(), path+".*", seen, depth+1)
	case reflect.Slice:
		if a.IsNil() != b.IsNil() {
			return false, fmt.Sprintf("%s: nil-ness differs (nil=%v vs nil=%v)", path, a.IsNil(), b.IsNil())
		}
		if a.Len() != b.Len() {
			return false, fmt.Sprintf("%s: len %d != %d", path, a.Len(), b.Len())
		}
		for i := 0; i < a.Len(); i++ {
			if ok, p := equal(a.Index(i), b.Index(i), fmt.Sprintf("%s[%d]", path, i), seen, depth+1); !ok {
				return false, p
			}
		}
	case reflect.Array:
		for i := 0; i < a.Len(); i++ {
			if ok, p := equal(a.Index(i), b.Index(i), fmt.Sprintf("%s[%d]", path, i), seen, depth+1); !ok {
				return false, p
			}
		}
	case reflect.Map:
		if a.IsNil() != b.IsNil() {
			return false, fmt.Sprintf("%s: nil-ness differs (nil=%v vs nil=%v)", path, a.IsNil(), b.IsNil())
		}
		if a.Len() != b.Len() {
			return false, fmt.Sprintf("%s: map len %d != %d", path, a.Len(), b.Len())
		}
		if hasPointer(a.Type().Key()) {
			// keys that contain pointers are never identical between two values: match entries by deep equality
			bkeys := b.MapKeys()
			used := make([]bool, len(bkeys))
			it := a.MapRange()
			for it.Next() {
				found := false
				why := ""
				for j, bk := range bkeys {
					if used[j] {
						continue
					}
					if ok, _ := equal(it.Key(), bk, path+"[key]", map[[2]unsafe.Pointer]bool{}, depth+1); !ok {
						continue
					}
					if ok, p := equal(it.Value(), b.MapIndex(bk), fmt.Sprintf("%s[%v]", path, Format(it.Key())), map[[2]unsafe.Pointer]bool{}, depth+1); !ok {
						why = p
						continue
					}
					used[j], found = true, true
					break
				}
				if !found {
					if why != "" {
						return false, why
					}
					return false, fmt.Sprintf("%s: key %v missing", path, Format(it.Key()))
				}
			}
			return true, ""
		}
		it := a.MapRange()
		for it.Next() {
			bv := b.MapIndex(it.Key())
			if !bv.IsValid() {
				return false, fmt.Sprintf("%s: key %v missing", path, fmtVal(it.Key()))
			}
			if ok, p := equal(it.Value(), bv, fmt.Sprintf("%s[%v]", path, fmtVal(it.Key())), seen, depth+1); !ok {
				return false, p
			}
		}
	case reflect.Struct:
		for i := 0; i < a.NumField(); i++ {
			if ok, p := equal(field(a, i), field(b, i), path+"."+a.Type().Field(i).Name, seen, depth+1); !ok {
				return false, p
			}
		}
	case reflect.Interface:
		if a.IsNil() != b.IsNil() {
			return false, fmt.Sprintf("%s: interface nil-ness differs", path)
		}
		if a.IsNil() {
			return true, ""
		}
		return equal(a.Elem(), b.Elem(), path+".(iface)", seen, depth+1)
	case reflect.Func, reflect.Chan, reflect.UnsafePointer:
		if a.IsNil() != b.IsNil() {
			return false, fmt.Sprintf("%s: nil-ness differs", path)
		}
		if !a.IsNil() && a.Pointer() != b.Pointer() {
			return false, fmt.Sprintf("%s: identity differs", path)
		}
	}
	return true, ""
}

func fmtVal(v reflect.Value) string {
	s := Format(v)
	if len(s) > 60 {
		s = s[:60] + "..."
	}
	return s
}

// Format renders a value (including unexported fields, nil vs empty) compactly.
func Format(v reflect.Value) string {
	var sb strings.Builder
	format(&sb, v, 0)
	s := sb.String()
	if len(s) > 1500 {
		s = s[:1500] + "...(truncated)"
	}
	return s
}

func format(sb *strings.Builder, v reflect.Value, depth int) {
	if sb.Len() > 1600 || depth > 12 {
		sb.WriteString("…")
		return
	}
	if !v.IsValid() {
		sb.WriteString("<invalid>")
		return
	}
	switch v.Kind() {
	case reflect.Ptr:
		if v.IsNil() {
			sb.WriteString("nil")
			return
		}
		sb.WriteString("&")
		format(sb, v.Elem(), depth+1)
	case reflect.Slice:
		if v.IsNil() {
			sb.WriteString("nil[]")
			return
		}
		fallthrough
	case reflect.Array:
		sb.WriteString("[")
		for i := 0; i < v.Len(); i++ {
			if i > 0 {
				sb.WriteString(" ")
			}
			format(sb, v.Index(i), depth+1)
		}
		sb.WriteString("]")
	case reflect.Map:
		if v.IsNil() {
			sb.WriteString("nilmap")
			return
		}
		keys := v.MapKeys()
		strs := make([]string, len(keys))
		for i, k := range keys {
			var ks, vs strings.Builder
			format(&ks, k, depth+1)
			format(&vs, v.MapIndex(k), depth+1)
			strs[i] = ks.String() + ":" + vs.String()
		}
		sort.Strings(strs)
		sb.WriteString("map{" + strings.Join(strs, " ") + "}")
	case reflect.Struct:
		sb.WriteString("{")
		for i := 0; i < v.NumField(); i++ {
			if i > 0 {
				sb.WriteString(" ")
			}
			sb.WriteString(v.Type().Field(i).Name + ":")
			format(sb, field(v, i), depth+1)
		}
		sb.WriteString("}")
	case reflect.Interface:
		if v.IsNil() {
			sb.WriteString("nil-iface")
			return
		}
		format(sb, v.Elem(), depth+1)
	case reflect.Func, reflect.Chan:
		if v.IsNil() {
			sb.WriteString("nil-" + v.Kind().String())
		} else {
			sb.WriteString(v.Kind().String())
		}
	case reflect.String:
		fmt.Fprintf(sb, "%q", v.String())
	case reflect.Float32, reflect.Float64:
		fmt.Fprintf(sb, "%v", v.Float())
	case reflect.Bool:
		fmt.Fprintf(sb, "%v", v.Bool())
	case reflect.Int, reflect.Int8, reflect.Int16, reflect.Int32, reflect.Int64:
		fmt.Fprintf(sb, "%d", v.Int())
	case reflect.Uint, reflect.Uint8, reflect.Uint16, reflect.Uint32, reflect.Uint64, reflect.Uintptr:
		fmt.Fprintf(sb, "%d", v.Uint())
	case reflect.Complex64, reflect.Complex128:
		fmt.Fprintf(sb, "%v", v.Complex())
	default:
		sb.WriteString(v.Kind().String())
	}
}

// ---------------------------------------------------------------------------
// Clone: deep copy that preserves values (not sharing); used for snapshots.

func Clone(v reflect.Value) reflect.Value {
	out := reflect.New(v.Type()).Elem()
	clone(out, v, 0)
	return out
}

func clone(dst, src reflect.Value, depth int) {
	if depth > 200 {
		return
	}
	switch src.Kind() {
	case reflect.Ptr:
		if src.IsNil() {
			return
		}
		p := reflect.New(src.Type().Elem())
		clone(p.Elem(), src.Elem(), depth+1)
		dst.Set(p)
	case reflect.Slice:
		if src.IsNil() {
			return
		}
		s := reflect.MakeSlice(src.Type(), src.Len(), src.Len())
		for i := 0; i < src.Len(); i++ {
			clone(s.Index(i), src.Index(i), depth+1)
		}
		dst.Set(s)
	case reflect.Array:
		for i := 0; i < src.Len(); i++ {
			clone(dst.Index(i), src.Index(i), depth+1)
		}
	case reflect.Map:
		if src.IsNil() {
			return
		}
		m := reflect.MakeMapWithSize(src.Type(), src.Len())
		it := src.MapRange()
		for it.Next() {
			k := reflect.New(src.Type().Key()).Elem()
			clone(k, it.Key(), depth+1)
			e := reflect.New(src.Type().Elem()).Elem()
			clone(e, it.Value(), depth+1)
			m.SetMapIndex(k, e)
		}
		dst.Set(m)
	case reflect.Struct:
		for i := 0; i < src.NumField(); i++ {
			clone(field(dst, i), field(src, i), depth+1)
		}
	default:
		dst.Set(forceIface(src))
	}
}

// ---------------------------------------------------------------------------
// Address-set monitor

// Interval is a half-open address range of mutable memory reachable from a value.
type Interval struct {
	Lo, Hi uintptr
	Path   string
	Kind   string
}

// hasPointer reports whether values of t (a map key type) contain pointers.
func hasPointer(t reflect.Type) bool {
	switch t.Kind() {
	case reflect.Ptr, reflect.Interface, reflect.Chan, reflect.UnsafePointer:
		return true
	case reflect.Array:
		return hasPointer(t.Elem())
	case reflect.Struct:
		for i := 0; i < t.NumField(); i++ {
			if hasPointer(t.Field(i).Type) {
				return true
			}
		}
	}
	return false
}

// Addrs collects the mutable memory reachable from v through pointers, slices and maps.
func Addrs(v reflect.Value) []Interval {
	var out []Interval
	addrs(v, "", &out, map[uintptr]bool{}, 0)
	return out
}

func addrs(v reflect.Value, path string, out *[]Interval, seen map[uintptr]bool, depth int) {
	if !v.IsValid() || depth > 200 {
		return
	}
	switch v.Kind() {
	case reflect.Ptr:
		if v.IsNil() {
			return
		}
		sz := v.Type().Elem().Size()
		a := v.Pointer()
		if sz > 0 {
			*out = append(*out, Interval{a, a + sz, path, "ptr"})
		}
		if seen[a] && sz > 0 {
			return
		}
		seen[a] = true
		addrs(v.Elem(), path+".*", out, seen, depth+1)
	case reflect.Slice:
		if v.IsNil() {
			return
		}
		sz := v.Type().Elem().Size()
		if v.Cap() > 0 && sz > 0 {
			a := v.Pointer()
			*out = append(*out, Interval{a, a + uintptr(v.Cap())*sz, path, "slice"})
		}
		for i := 0; i < v.Len(); i++ {
			addrs(v.Index(i), fmt.Sprintf("%s[%d]", path, i), out, seen, depth+1)
		}
	case reflect.Array:
		for i := 0; i < v.Len(); i++ {
			addrs(v.Index(i), fmt.Sprintf("%s[%d]", path, i), out, seen, depth+1)
		}
	case reflect.Map:
		if v.IsNil() {
			return
		}
		a := v.Pointer()
		*out = append(*out, Interval{a, a + 1, path, "map"})
		if seen[a] {
			return
		}
		seen[a] = true
		it := v.MapRange()
		for it.Next() {
			addrs(it.Key(), path+"[key]", out, seen, depth+1)
			addrs(it.Value(), fmt.Sprintf("%s[%s]", path, fmtVal(it.Key())), out, seen, depth+1)
		}
	case reflect.Struct:
		for i := 0; i < v.NumField(); i++ {
			addrs(field(v, i), path+"."+v.Type().Field(i).Name, out, seen, depth+1)
		}
	case reflect.Interface:
		if v.IsNil() {
			return
		}
		addrs(v.Elem(), path, out, seen, depth+1)
	}
}

// Overlap returns the first pair of overlapping intervals from a and b that is
// not fully inside one of the allowed intervals.
func Overlap(a, b, allowed []Interval) (bool, Interval, Interval) {
	sort.Slice(a, func(i, j int) bool { return a[i].Lo < a[j].Lo })
	for _, y := range b {
		for _, x := range a {
			if x.Lo >= y.Hi {
				break
			}
			if x.Hi > y.Lo && x.Lo < y.Hi {
				ok := false
				for _, al := range allowed {
					if y.Lo >= al.Lo && y.Hi <= al.Hi {
						ok = true
						break
					}
				}
				if !ok {
					return true, x, y
				}
			}
		}
	}
	return false, Interval{}, Interval{}
}

// Scramble overwrites every mutable basic location reachable from v.
func Scramble(v reflect.Value) {
	scramble(v, map[uintptr]bool{}, 0)
}

func scramble(v reflect.Value, seen map[uintptr]bool, depth int) {
	if !v.IsValid() || depth > 200 {
		return
	}
	switch v.Kind() {
	case reflect.Ptr:
		if v.IsNil() || seen[v.Pointer()] {
			return
		}
		seen[v.Pointer()] = true
		scramble(v.Elem(), seen, depth+1)
	case reflect.Slice:
		if v.IsNil() {
			return
		}
		full := v.Slice(0, v.Cap())
		for i := 0; i < full.Len(); i++ {
			scramble(full.Index(i), seen, depth+1)
		}
	case reflect.Array:
		if !v.CanAddr() {
			return
		}
		for i := 0; i < v.Len(); i++ {
			scramble(v.Index(i), seen, depth+1)
		}
	case reflect.Map:
		if v.IsNil() || seen[v.Pointer()] {
			return
		}
		seen[v.Pointer()] = true
		keys := v.MapKeys()
		for _, k := range keys {
			e := Addressable(v.MapIndex(k))
			scramble(e, seen, depth+1)
			v.SetMapIndex(k, e)
		}
		// add an extra entry when the key type allows a distinct value
		k := reflect.New(v.Type().Key()).Elem()
		if k.Kind() == reflect.String {
			k.SetString("__scrambled__")
			v.SetMapIndex(k, reflect.Zero(v.Type().Elem()))
		}
	case reflect.Struct:
		if !v.CanAddr() {
			return
		}
		for i := 0; i < v.NumField(); i++ {
			scramble(field(v, i), seen, depth+1)
		}
	case reflect.Bool:
		if v.CanSet() {
			v.SetBool(!v.Bool())
		}
	case reflect.Int, reflect.Int8, reflect.Int16, reflect.Int32, reflect.Int64:
		if v.CanSet() {
			v.SetInt(v.Int() ^ 0x55)
		}
	case reflect.Uint, reflect.Uint8, reflect.Uint16, reflect.Uint32, reflect.Uint64:
		if v.CanSet() {
			v.SetUint(v.Uint() ^ 0x55)
		}
	case reflect.Float32, reflect.Float64:
		if v.CanSet() {
			v.SetFloat(v.Float() + 7)
		}
	case reflect.String:
		if v.CanSet() {
			v.SetString(v.String() + "~")
		}
	}
}

// Touch reads every word reachable from v (used by reader goroutines under the race detector).
func Touch(v reflect.Value) uint64 {
	var h uint64
	touch(v, &h, map[uintptr]bool{}, 0)
	return h
}

func touch(v reflect.Value, h *uint64, seen map[uintptr]bool, depth int) {
	if !v.IsValid() || depth > 200 {
		return
	}
	switch v.Kind() {
	case reflect.Ptr:
		if v.IsNil() || seen[v.Pointer()] {
			return
		}
		seen[v.Pointer()] = true
		touch(v.Elem(), h, seen, depth+1)
	case reflect.Slice, reflect.Array:
		if v.Kind() == reflect.Slice && v.IsNil() {
			return
		}
		for i := 0; i < v.Len(); i++ {
			touch(v.Index(i), h, seen, depth+1)
		}
	case reflect.Map:
		if v.IsNil() || seen[v.Pointer()] {
			return
		}
		seen[v.Pointer()] = true
		it := v.MapRange()
		for it.Next() {
			touch(it.Key(), h, seen, depth+1)
			touch(it.Value(), h, seen, depth+1)
		}
	case reflect.Struct:
		for i := 0; i < v.NumField(); i++ {
			touch(field(v, i), h, seen, depth+1)
		}
	case reflect.Bool:
		if v.Bool() {
			*h++
		}
	case reflect.Int, reflect.Int8, reflect.Int16, reflect.Int32, reflect.Int64:
		*h += uint64(v.Int())
	case reflect.Uint, reflect.Uint8, reflect.Uint16, reflect.Uint32, reflect.Uint64:
		*h += v.Uint()
	case reflect.Float32, reflect.Float64:
		*h += math.Float64bits(v.Float())
	case reflect.String:
		*h += uint64(len(v.String()))
	}
}

// HasContainer reports whether v holds at least one non-nil pointer, slice or map.
func HasContainer(v reflect.Value) bool {
	return len(Addrs(v)) > 0
}

package vref

import (
	"fmt"
	"sync"
)

// Injected is the error returned by fallible custom functions of generated cases when their
// call id is in the fault plan.
type Injected struct{ ID int64 }

func (e *Injected) Error() string { return fmt.Sprintf("injected fault %d", e.ID) }

var (
	faultMu   sync.Mutex
	faultPlan = map[int64]bool{}
	faultSeen []int64
	faultRec  bool
)

// SetFaultPlan replaces the plan (ids that fail).
func SetFaultPlan(ids ...int64) {
	faultMu.Lock()
	defer faultMu.Unlock()
	faultPlan = map[int64]bool{}
	for _, id := range ids {
		faultPlan[id] = true
	}
}

// RecordCalls switches recording of fallible call ids on/off and returns what was recorded.
func RecordCalls(on bool) []int64 {
	faultMu.Lock()
	defer faultMu.Unlock()
	out := faultSeen
	faultSeen = nil
	faultRec = on
	return out
}

// ShouldFail is called by fallible custom functions with the id of their input.
func ShouldFail(id int64) bool {
	faultMu.Lock()
	defer faultMu.Unlock()
	if faultRec {
		faultSeen = append(faultSeen, id)
	}
	return faultPlan[id]
}

// Fail returns the injected error for id if planned, else nil.
func Fail(id int64) error {
	if ShouldFail(id) {
		return &Injected{ID: id}
	}
	return nil
}

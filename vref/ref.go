package vref

import (
	"fmt"
	"reflect"
	"strings"
)

// Flags are the inheritable settings that change the documented mapping.
type Flags struct {
	SkipCopy         bool   `json:"skipCopy,omitempty"`
	UseZero          bool   `json:"useZero,omitempty"`
	IgnoreUnexported bool   `json:"ignoreUnexported,omitempty"`
	IgnoreMissing    bool   `json:"ignoreMissing,omitempty"`
	MatchIgnoreCase  bool   `json:"matchIgnoreCase,omitempty"`
	UseUnderlying    bool   `json:"useUnderlying,omitempty"`
	EnumOff          bool   `json:"enumOff,omitempty"`
	EnumUnknown      string `json:"enumUnknown,omitempty"`
	IZBasic          bool   `json:"izBasic,omitempty"`
	IZStruct         bool   `json:"izStruct,omitempty"`
	IZNillable       bool   `json:"izNillable,omitempty"`
	DefaultUpdate    bool   `json:"defaultUpdate,omitempty"`
}

// FieldSpec is the documented source selection of one target field.
type FieldSpec struct {
	Ignore bool     `json:"ignore,omitempty"`
	Path   []string `json:"path,omitempty"` // source path; ["."] = whole source
	Func   string   `json:"func,omitempty"` // callable key of map|FUNC
	// NoSource: map TARGET | FUNC without a source (FUNC takes contexts only)
	NoSource bool `json:"noSource,omitempty"`
}

// MethodSpec describes one declared conversion method.
type MethodSpec struct {
	Name    string               `json:"name"`
	Roles   []string             `json:"roles"` // per parameter: source | ctx | target
	Flags   Flags                `json:"flags"`
	Fields  map[string]FieldSpec `json:"fields,omitempty"`
	AutoMap [][]string           `json:"autoMap,omitempty"`
	Default string               `json:"default,omitempty"` // callable key
	EnumMap map[string]string    `json:"enumMap,omitempty"`
	// NoValue: do not judge values (only run for panics/aliasing).
	NoValue bool `json:"noValue,omitempty"`
	// ExpectErr: method has an error result.
	HasErr bool `json:"hasErr,omitempty"`
	// WrapMode: none | wrapErrors | using (how errors are wrapped in this method and its sub-methods)
	WrapMode string `json:"wrapMode,omitempty"`
}

// FuncSpec describes a custom function known to the converter.
type FuncSpec struct {
	Key   string   `json:"key"`
	Kind  string   `json:"kind"`  // extend | map | default
	Roles []string `json:"roles"` // conv | source | ctx
}

// EnumSpec: members of a named basic type.
type EnumSpec struct {
	Members map[string]any `json:"members"` // name -> constant value (number or string)
	Order   []string       `json:"order"`
}

// EnumCase is the expected outcome for one source value of an enum pair.
type EnumCase struct {
	In   string `json:"in"`   // source value (literal text; parsed by the kind of the source type)
	Kind string `json:"kind"` // value | error | panic | zero
	Out  string `json:"out,omitempty"`
}

// EnumPair is the resolved name-driven mapping of one (source enum, target enum) pair.
type EnumPair struct {
	Src     string     `json:"src"` // pkgpath.Name
	Tgt     string     `json:"tgt"`
	Cases   []EnumCase `json:"cases"`
	Unknown EnumCase   `json:"unknown"`
}

// RefPanic: the reference expects the generated code to panic (enum @panic action).
type RefPanic struct{ Why string }

func (p *RefPanic) Error() string { return "expected panic: " + p.Why }

// Ref is the reference interpreter.
type Ref struct {
	Conv      Flags
	Methods   map[[2]reflect.Type]*MethodSpec
	Extends   map[[2]reflect.Type]*boundFunc
	Callables map[string]reflect.Value
	Funcs     map[string]*FuncSpec
	Enums     map[string]*EnumSpec
	EnumPairs map[string]*EnumPair
	Impl      reflect.Value
	// Allowed collects memory that may legitimately be shared (skipCopySameType positions).
	Allowed []Interval
	// ctx values of the current outer call by type
	Ctx map[reflect.Type]reflect.Value
}

type boundFunc struct {
	spec *FuncSpec
	fn   reflect.Value
}

type state struct {
	flags  Flags
	ms     *MethodSpec  // method whose field settings apply
	ftype  reflect.Type // struct type the field settings apply to
	depth  int
	inline bool // still inside the method's own (pointer-)struct pair
}

// RefError is an expected failure of the reference (a custom function failed).
type RefError struct {
	Err  error
	Path []string
}

func (e *RefError) Error() string { return fmt.Sprintf("ref error at %v: %v", e.Path, e.Err) }

// Unsupported is returned when the reference has no rule; the oracle then abstains.
type Unsupported struct{ Why string }

func (u *Unsupported) Error() string { return "unsupported: " + u.Why }

func isNamedNonBasic(t reflect.Type) bool {
	if t.Name() == "" || t.PkgPath() == "" {
		return false
	}
	switch t.Kind() {
	case reflect.Struct, reflect.Slice, reflect.Array, reflect.Map, reflect.Ptr, reflect.Interface, reflect.Func, reflect.Chan:
		return true
	}
	return false
}

func isBasicKind(k reflect.Kind) bool {
	switch k {
	case reflect.Bool, reflect.Int, reflect.Int8, reflect.Int16, reflect.Int32, reflect.Int64,
		reflect.Uint, reflect.Uint8, reflect.Uint16, reflect.Uint32, reflect.Uint64, reflect.Uintptr,
		reflect.Float32, reflect.Float64, reflect.Complex64, reflect.Complex128, reflect.String, reflect.UnsafePointer:
		return true
	}
	return false
}

// Method computes the expected result of calling method ms with source src.
func (r *Ref) Method(ms *MethodSpec, src reflect.Value, T reflect.Type) (reflect.Value, error) {
	if bf, ok := r.Extends[[2]reflect.Type{src.Type(), T}]; ok {
		// a declared method whose pair has an extend function delegates to that function
		return r.callFunc(bf.spec, bf.fn, src, T, nil)
	}
	st := state{flags: ms.Flags, ms: ms, inline: true}
	st.ftype = T
	if T.Kind() == reflect.Ptr && T.Elem().Kind() == reflect.Struct {
		st.ftype = T.Elem()
	}
	return r.conv(src, T, st, nil, true)
}

func (r *Ref) conv(src reflect.Value, T reflect.Type, st state, path []string, top bool) (reflect.Value, error) {
	S := src.Type()
	if st.depth > 300 {
		return reflect.Value{}, &Unsupported{"depth"}
	}
	if !top {
		// 1. overrides: extend first, then declared methods
		if bf, ok := r.Extends[[2]reflect.Type{S, T}]; ok {
			return r.callFunc(bf.spec, bf.fn, src, T, path)
		}
		if ms, ok := r.Methods[[2]reflect.Type{S, T}]; ok {
			nst := state{flags: ms.Flags, ms: ms, inline: true, depth: st.depth + 1}
			nst.ftype = T
			if T.Kind() == reflect.Ptr && T.Elem().Kind() == reflect.Struct {
				nst.ftype = T.Elem()
			}
			return r.conv(src, T, nst, path, true)
		}
		// sub-method boundary: converter-level settings, no field settings
		inlineStruct := st.inline && S.Kind() == reflect.Struct && T.Kind() == reflect.Struct
		if !inlineStruct {
			boundary := isNamedNonBasic(S) || isNamedNonBasic(T) ||
				(S.Kind() == reflect.Ptr && isNamedNonBasic(S.Elem()))
			if st.flags.SkipCopy && S == T {
				boundary = false
			}
			if boundary {
				st = state{flags: r.Conv, depth: st.depth}
			}
		}
	}
	st.depth++
	stNext := st
	// "inline" survives only the pointer hops from the method's own pair down to its struct
	if !(S.Kind() == reflect.Ptr || T.Kind() == reflect.Ptr) {
		stNext.inline = false
	}

	// useUnderlyingTypeMethods
	if st.flags.UseUnderlying {
		if v, ok, err := r.underlying(src, T, path); ok {
			return v, err
		}
	}
	// skipCopySameType
	if st.flags.SkipCopy && S == T {
		r.Allowed = append(r.Allowed, Addrs(src)...)
		return src, nil
	}
	// enums
	if !st.flags.EnumOff {
		if se, te := r.enumOf(S), r.enumOf(T); se != nil && te != nil {
			return r.enumConv(src, T, se, te, st, path)
		}
	}
	sk, tk := S.Kind(), T.Kind()
	switch {
	case sk == reflect.Ptr && tk == reflect.Ptr:
		out := reflect.New(T).Elem()
		if src.IsNil() {
			return out, nil
		}
		inner, err := r.conv(src.Elem(), T.Elem(), stNext, path, false)
		if err != nil {
			return out, err
		}
		p := reflect.New(T.Elem())
		p.Elem().Set(forceIface(inner))
		out.Set(p)
		return out, nil
	case sk == reflect.Ptr && tk != reflect.Ptr:
		if !st.flags.UseZero {
			return reflect.Value{}, &Unsupported{"*T -> T without flag"}
		}
		out := reflect.New(T).Elem()
		if src.IsNil() {
			return out, nil
		}
		return r.conv(src.Elem(), T, stNext, path, false)
	case sk != reflect.Ptr && tk == reflect.Ptr:
		out := reflect.New(T).Elem()
		inner, err := r.conv(src, T.Elem(), stNext, path, false)
		if err != nil {
			return out, err
		}
		p := reflect.New(T.Elem())
		p.Elem().Set(forceIface(inner))
		out.Set(p)
		return out, nil
	case isBasicKind(sk) && sk == tk:
		return forceIface(src).Convert(T), nil
	case sk == reflect.Struct && tk == reflect.Struct:
		return r.structConv(src, T, st, stNext, path)
	case (sk == reflect.Slice || sk == reflect.Array) && tk == reflect.Slice:
		out := reflect.New(T).Elem()
		if sk == reflect.Slice && src.IsNil() {
			return out, nil
		}
		s := reflect.MakeSlice(T, src.Len(), src.Len())
		for i := 0; i < src.Len(); i++ {
			e, err := r.conv(src.Index(i), T.Elem(), stNext, append(path[:len(path):len(path)], fmt.Sprintf("index:%d", i)), false)
			if err != nil {
				return out, err
			}
			s.Index(i).Set(forceIface(e))
		}
		out.Set(s)
		return out, nil
	case sk == reflect.Map && tk == reflect.Map:
		out := reflect.New(T).Elem()
		if src.IsNil() {
			return out, nil
		}
		m := reflect.MakeMapWithSize(T, src.Len())
		it := src.MapRange()
		for it.Next() {
			kp := append(path[:len(path):len(path)], "key:"+fmt.Sprintf("%#v", forceIface(it.Key()).Interface()))
			k, err := r.conv(it.Key(), T.Key(), stNext, kp, false)
			if err != nil {
				return out, err
			}
			e, err := r.conv(it.Value(), T.Elem(), stNext, kp, false)
			if err != nil {
				return out, err
			}
			m.SetMapIndex(forceIface(k), forceIface(e))
		}
		out.Set(m)
		return out, nil
	}
	return reflect.Value{}, &Unsupported{fmt.Sprintf("no rule %s -> %s", S, T)}
}

func (r *Ref) structConv(src reflect.Value, T reflect.Type, st, stNext state, path []string) (reflect.Value, error) {
	out := reflect.New(T).Elem()
	S := src.Type()
	// optimisation for "sets": unnamed empty struct both sides
	var fields map[string]FieldSpec
	var ms *MethodSpec
	if st.ms != nil && st.ftype == T {
		fields = st.ms.Fields
		ms = st.ms
	}
	for i := 0; i < T.NumField(); i++ {
		tf := T.Field(i)
		fs := fields[tf.Name]
		if fs.Ignore {
			continue
		}
		if tf.PkgPath != "" && st.flags.IgnoreUnexported {
			continue
		}
		fpath := append(path[:len(path):len(path)], "field:"+tf.Name)
		var sv reflect.Value
		var have bool
		switch {
		case fs.NoSource && fs.Func != "":
			sv, have = reflect.Value{}, true
		case len(fs.Path) == 1 && fs.Path[0] == ".":
			sv, have = src, true
		case len(fs.Path) > 0:
			v, ok, err := walkPath(src, fs.Path)
			if err != nil {
				if re, isRef := err.(*RefError); isRef {
					// a fallible source method: the error is located at the target field it feeds
					re.Path = fpath
				}
				return out, err
			}
			sv, have = v, ok
			if !ok {
				// nil intermediate pointer: the value is a nil pointer of the path's type
				sv, have = v, true
			}
		default:
			p, ok, err := r.findField(S, tf.Name, st.flags.MatchIgnoreCase, ms)
			if err != nil {
				return out, err
			}
			if !ok {
				if st.flags.IgnoreMissing {
					continue
				}
				return out, &Unsupported{"no source for field " + tf.Name}
			}
			v, _, err := walkPath(src, p)
			if err != nil {
				if re, isRef := err.(*RefError); isRef {
					re.Path = fpath
				}
				return out, err
			}
			sv, have = v, true
		}
		if !have {
			continue
		}
		if fs.Func != "" {
			fn, ok := r.Callables[fs.Func]
			if !ok {
				return out, &Unsupported{"missing callable " + fs.Func}
			}
			spec := r.Funcs[fs.Func]
			v, err := r.callFunc(spec, fn, sv, tf.Type, fpath)
			if err != nil {
				return out, err
			}
			field(out, i).Set(forceIface(v))
			continue
		}
		v, err := r.conv(sv, tf.Type, stNext, fpath, false)
		if err != nil {
			return out, err
		}
		field(out, i).Set(forceIface(v))
	}
	return out, nil
}

// walkPath follows a dotted source path. Pointer hops are nil-guarded: if any
// intermediate pointer is nil the result is the nil pointer of type *Last (or Last if it is a pointer).
// WalkCtx holds the context arguments of the method call that is being judged (source methods take them).
var WalkCtx = map[reflect.Type]reflect.Value{}

func walkPath(src reflect.Value, p []string) (reflect.Value, bool, error) {
	cur := src
	viaPtr := false
	nilHit := false
	curT := src.Type()
	for _, name := range p {
		if curT.Kind() == reflect.Ptr {
			viaPtr = true
			if !nilHit && cur.IsNil() {
				nilHit = true
			}
			curT = curT.Elem()
			if !nilHit {
				cur = cur.Elem()
			}
		}
		if curT.Kind() != reflect.Struct {
			return reflect.Value{}, false, &Unsupported{"path through non-struct"}
		}
		sf, ok := curT.FieldByName(name)
		if !ok || len(sf.Index) != 1 {
			// an argument-less method of the source struct used as a field
			mt, found := reflect.PointerTo(curT).MethodByName(name)
			if !found || mt.Type.NumOut() < 1 {
				return reflect.Value{}, false, &Unsupported{"path element " + name + " is neither a direct field nor a method"}
			}
			// every parameter of a source method is a context
			var margs []reflect.Value
			for a := 1; a < mt.Type.NumIn(); a++ {
				cv, ok := WalkCtx[mt.Type.In(a)]
				if !ok {
					return reflect.Value{}, false, &Unsupported{"source method " + name + " needs a context that is not available"}
				}
				margs = append(margs, cv)
			}
			curT = mt.Type.Out(0)
			if !nilHit {
				recv := reflect.New(cur.Type())
				recv.Elem().Set(forceIface(cur))
				outs := recv.MethodByName(name).Call(margs)
				if len(outs) == 2 && !outs[1].IsNil() {
					return reflect.Value{}, false, &RefError{Err: outs[1].Interface().(error), Path: []string{name}}
				}
				cur = outs[0]
			}
			continue
		}
		curT = sf.Type
		if !nilHit {
			cur = field(cur, sf.Index[0])
		}
	}
	if !viaPtr {
		return cur, true, nil
	}
	// result is pointer typed
	if curT.Kind() == reflect.Ptr {
		if nilHit {
			return reflect.Zero(curT), false, nil
		}
		return cur, true, nil
	}
	pt := reflect.PointerTo(curT)
	if nilHit {
		return reflect.Zero(pt), false, nil
	}
	np := reflect.New(curT)
	np.Elem().Set(forceIface(cur))
	return np, true, nil
}

// findField resolves the source path for target field name the documented way:
// exact name on the source or inside an autoMap path, else (matchIgnoreCase)
// a unique case-insensitive candidate. It returns the path.
func (r *Ref) findField(S reflect.Type, name string, ignoreCase bool, ms *MethodSpec) ([]string, bool, error) {
	var exact, loose [][]string
	scan := func(prefix []string, bt reflect.Type) {
		for i := 0; i < bt.NumField(); i++ {
			f := bt.Field(i)
			p := append(append([]string{}, prefix...), f.Name)
			if f.Name == name {
				exact = append(exact, p)
				return
			} else if ignoreCase && strings.EqualFold(f.Name, name) {
				loose = append(loose, p)
			}
		}
	}
	if S.Kind() != reflect.Struct {
		return nil, false, &Unsupported{"source not a struct"}
	}
	scan(nil, S)
	if ms != nil {
		for _, am := range ms.AutoMap {
			bt := S
			for _, el := range am {
				if bt.Kind() == reflect.Ptr {
					bt = bt.Elem()
				}
				if bt.Kind() != reflect.Struct {
					return nil, false, &Unsupported{"autoMap non struct"}
				}
				sf, ok := bt.FieldByName(el)
				if !ok || len(sf.Index) != 1 {
					return nil, false, &Unsupported{"autoMap element not a direct field"}
				}
				bt = sf.Type
			}
			if bt.Kind() == reflect.Ptr {
				bt = bt.Elem()
			}
			if bt.Kind() != reflect.Struct {
				return nil, false, &Unsupported{"autoMap non struct"}
			}
			scan(am, bt)
		}
	}
	m := exact
	if len(m) == 0 {
		m = loose
	}
	switch len(m) {
	case 0:
		return nil, false, nil
	case 1:
		return m[0], true, nil
	}
	return nil, false, &Unsupported{"ambiguous field " + name}
}

func (r *Ref) callFunc(spec *FuncSpec, fn reflect.Value, src reflect.Value, T reflect.Type, path []string) (reflect.Value, error) {
	ft := fn.Type()
	args := make([]reflect.Value, ft.NumIn())
	for i := 0; i < ft.NumIn(); i++ {
		role := "source"
		if spec != nil && i < len(spec.Roles) {
			role = spec.Roles[i]
		}
		switch role {
		case "conv":
			args[i] = r.Impl
		case "ctx":
			v, ok := r.Ctx[ft.In(i)]
			if !ok {
				return reflect.Value{}, &Unsupported{"context not available " + ft.In(i).String()}
			}
			args[i] = v
		default:
			if !src.IsValid() {
				return reflect.Value{}, &Unsupported{"function wants a source but the setting has none"}
			}
			if !src.Type().AssignableTo(ft.In(i)) {
				if reflect.PtrTo(src.Type()).AssignableTo(ft.In(i)) {
					// map . F | FUNC(*S) in a method whose source is *S: the function receives the pointer
					p := reflect.New(src.Type())
					p.Elem().Set(forceIface(src))
					args[i] = p
					continue
				}
				return reflect.Value{}, &Unsupported{"source not assignable to func param"}
			}
			args[i] = forceIface(src)
		}
	}
	outs := callFn(fn, args)
	if len(outs) == 2 && !outs[1].IsNil() {
		return reflect.Zero(T), &RefError{Err: outs[1].Interface().(error), Path: path}
	}
	res := outs[0]
	if res.Type() != T {
		if res.Type().AssignableTo(T) {
			c := reflect.New(T).Elem()
			c.Set(res)
			res = c
		} else {
			return reflect.Value{}, &Unsupported{"func result type mismatch"}
		}
	}
	return res, nil
}

// basicTypes maps a basic kind to its predeclared reflect.Type (the "underlying type" of a named basic).
var basicTypes = map[reflect.Kind]reflect.Type{
	reflect.Bool: reflect.TypeOf(false), reflect.Int: reflect.TypeOf(int(0)), reflect.Int8: reflect.TypeOf(int8(0)), reflect.Int16: reflect.TypeOf(int16(0)),
	reflect.Int32: reflect.TypeOf(int32(0)), reflect.Int64: reflect.TypeOf(int64(0)), reflect.Uint: reflect.TypeOf(uint(0)), reflect.Uint8: reflect.TypeOf(uint8(0)),
	reflect.Uint16: reflect.TypeOf(uint16(0)), reflect.Uint32: reflect.TypeOf(uint32(0)), reflect.Uint64: reflect.TypeOf(uint64(0)),
	reflect.Float32: reflect.TypeOf(float32(0)), reflect.Float64: reflect.TypeOf(float64(0)), reflect.String: reflect.TypeOf(""),
}

func underlyingOf(t reflect.Type) (reflect.Type, bool) {
	if t.PkgPath() == "" || t.Name() == "" {
		return nil, false
	}
	if t.Kind() == reflect.Struct {
		// the unnamed struct type with the same (exported) fields
		var fs []reflect.StructField
		for i := 0; i < t.NumField(); i++ {
			f := t.Field(i)
			if f.PkgPath != "" {
				return nil, false
			}
			fs = append(fs, reflect.StructField{Name: f.Name, Type: f.Type, Tag: f.Tag})
		}
		return reflect.StructOf(fs), true
	}
	u, ok := basicTypes[t.Kind()]
	return u, ok
}

// underlying implements useUnderlyingTypeMethods for named basic types: named->underlying, both, underlying->named.
func (r *Ref) underlying(src reflect.Value, T reflect.Type, path []string) (reflect.Value, bool, error) {
	S := src.Type()
	has := func(a, b reflect.Type) (*boundFunc, *MethodSpec) {
		if bf, ok := r.Extends[[2]reflect.Type{a, b}]; ok {
			return bf, nil
		}
		if ms, ok := r.Methods[[2]reflect.Type{a, b}]; ok {
			return nil, ms
		}
		return nil, nil
	}
	su, sok := underlyingOf(S)
	tu, tok := underlyingOf(T)
	try := func(a, b reflect.Type, convSrc, convTgt bool) (reflect.Value, bool, error) {
		bf, ms := has(a, b)
		if bf == nil && ms == nil {
			return reflect.Value{}, false, nil
		}
		in := src
		if convSrc {
			in = forceIface(src).Convert(a)
		}
		var out reflect.Value
		var err error
		if bf != nil {
			out, err = r.callFunc(bf.spec, bf.fn, in, b, path)
		} else {
			out, err = r.Method(ms, in, b)
		}
		if err != nil {
			return out, true, err
		}
		if convTgt {
			out = forceIface(out).Convert(T)
		}
		return out, true, nil
	}
	if sok {
		if v, ok, err := try(su, T, true, false); ok {
			return v, ok, err
		}
		if tok {
			if v, ok, err := try(su, tu, true, true); ok {
				return v, ok, err
			}
		}
	}
	if tok {
		if v, ok, err := try(S, tu, false, true); ok {
			return v, ok, err
		}
	}
	return reflect.Value{}, false, nil
}

func typeKey(t reflect.Type) string {
	if t.PkgPath() == "" {
		return ""
	}
	return t.PkgPath() + "." + t.Name()
}

func (r *Ref) enumOf(t reflect.Type) *EnumSpec {
	if r.Enums == nil {
		return nil
	}
	k := typeKey(t)
	if k == "" {
		return nil
	}
	return r.Enums[k]
}

func (r *Ref) enumConv(src reflect.Value, T reflect.Type, se, te *EnumSpec, st state, path []string) (reflect.Value, error) {
	pair := r.EnumPairs[typeKey(src.Type())+"->"+typeKey(T)]
	if pair == nil {
		return reflect.Value{}, &Unsupported{"enum pair without a resolved mapping"}
	}
	out := reflect.New(T).Elem()
	apply := func(c EnumCase) (reflect.Value, error) {
		switch c.Kind {
		case "value":
			setBasic(out, c.Out)
			return out, nil
		case "zero":
			return out, nil
		case "error":
			return out, &RefError{Err: fmt.Errorf("unexpected enum element"), Path: path}
		case "panic":
			return out, &RefPanic{Why: "enum action @panic for " + Format(src)}
		}
		return out, &Unsupported{"enum case kind " + c.Kind}
	}
	for _, c := range pair.Cases {
		probe := reflect.New(src.Type()).Elem()
		setBasic(probe, c.In)
		if ok, _ := Equal(probe, forceIface(src)); ok {
			return apply(c)
		}
	}
	return apply(pair.Unknown)
}

// enumOutcomes scans a source value for enum leaves whose documented outcome is an error or a panic.
// With several such elements (map iteration order!) either may be observed first.
func (r *Ref) enumOutcomes(v reflect.Value) (mayErr, mayPanic bool) {
	bySrc := map[string]*EnumPair{}
	for _, p := range r.EnumPairs {
		bySrc[p.Src] = p
	}
	var walk func(v reflect.Value, depth int)
	walk = func(v reflect.Value, depth int) {
		if !v.IsValid() || depth > 100 {
			return
		}
		if p, ok := bySrc[typeKey(v.Type())]; ok {
			kind := p.Unknown.Kind
			for _, c := range p.Cases {
				probe := reflect.New(v.Type()).Elem()
				setBasic(probe, c.In)
				if eq, _ := Equal(probe, forceIface(v)); eq {
					kind = c.Kind
					break
				}
			}
			switch kind {
			case "error":
				mayErr = true
			case "panic":
				mayPanic = true
			}
			return
		}
		switch v.Kind() {
		case reflect.Ptr, reflect.Interface:
			if !v.IsNil() {
				walk(v.Elem(), depth+1)
			}
		case reflect.Slice, reflect.Array:
			for i := 0; i < v.Len(); i++ {
				walk(v.Index(i), depth+1)
			}
		case reflect.Map:
			it := v.MapRange()
			for it.Next() {
				walk(it.Key(), depth+1)
				walk(it.Value(), depth+1)
			}
		case reflect.Struct:
			for i := 0; i < v.NumField(); i++ {
				walk(field(v, i), depth+1)
			}
		}
	}
	walk(v, 0)
	return
}

// Package errs is the recording implementation of the wrapErrorsUsing contract
// (Wrap, Field, Index, Key) used by generated cases.
package errs

import (
	"fmt"
	"strings"
)

// Element is one element of an error location path.
type Element struct {
	Kind  string // field | index | key
	Value string
}

func (e Element) String() string { return e.Kind + ":" + e.Value }

func Field(name string) Element { return Element{"field", name} }
func Index(i int) Element       { return Element{"index", fmt.Sprint(i)} }
func Key(k any) Element         { return Element{"key", fmt.Sprintf("%#v", k)} }

// Wrapped records one Wrap call.
type Wrapped struct {
	Err  error
	Path []Element
}

func (w *Wrapped) Error() string {
	var p []string
	for _, e := range w.Path {
		p = append(p, e.String())
	}
	return "[" + strings.Join(p, " ") + "] " + w.Err.Error()
}

func (w *Wrapped) Unwrap() error { return w.Err }

// PathStrings renders the elements of this Wrap call ("field:Name", "index:3", "key:\"k\"").
func (w *Wrapped) PathStrings() []string {
	out := make([]string, len(w.Path))
	for i, e := range w.Path {
		out[i] = e.String()
	}
	return out
}

// Wrap is called by emitted code with the failing error and the path elements.
func Wrap(err error, path ...Element) error {
	return &Wrapped{Err: err, Path: append([]Element{}, path...)}
}

// FullPath concatenates the elements of all Wrap calls, outermost first.
func FullPath(err error) []Element {
	var out []Element
	for err != nil {
		if w, ok := err.(*Wrapped); ok {
			out = append(out, w.Path...)
			err = w.Err
			continue
		}
		u, ok := err.(interface{ Unwrap() error })
		if !ok {
			break
		}
		err = u.Unwrap()
	}
	return out
}

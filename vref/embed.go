package vref

import "embed"

// Sources holds this package's own source files; the driver copies them into
// every scratch module so that emitted code is linked against the same harness.
//
//go:embed value.go ref.go run.go fault.go update.go deflt.go embed.go errs/errs.go
var Sources embed.FS

package vref

import (
	"fmt"
	"reflect"
)

// isZeroDeep reports whether v equals the zero value of its type in the sense of Go's == (so -0.0 is zero).
func isZeroDeep(v reflect.Value) bool {
	switch v.Kind() {
	case reflect.Float32, reflect.Float64:
		return v.Float() == 0
	case reflect.Complex64, reflect.Complex128:
		return v.Complex() == 0
	case reflect.Struct:
		for i := 0; i < v.NumField(); i++ {
			if !isZeroDeep(field(v, i)) {
				return false
			}
		}
		return true
	case reflect.Array:
		for i := 0; i < v.Len(); i++ {
			if !isZeroDeep(v.Index(i)) {
				return false
			}
		}
		return true
	}
	z := reflect.Zero(v.Type())
	ok, _ := Equal(forceIface(v), z)
	return ok
}

// zeroCategory classifies a source field type into the documented update:ignoreZeroValueField categories.
func zeroCategory(t reflect.Type) string {
	switch t.Kind() {
	case reflect.Struct:
		return "struct"
	case reflect.Chan, reflect.Map, reflect.Func, reflect.Interface, reflect.Slice:
		return "nillable"
	case reflect.Ptr:
		return "nillable-conditional" // only with skipCopySameType and identical types (documented)
	case reflect.Array:
		return "other"
	}
	if isBasicKind(t.Kind()) {
		return "basic"
	}
	return "other"
}

// Field converts a single field value under the settings of method ms (no field settings apply below).
func (r *Ref) Field(ms *MethodSpec, sv reflect.Value, T reflect.Type, path []string) (reflect.Value, error) {
	st := state{flags: ms.Flags, depth: 1}
	return r.conv(sv, T, st, path, false)
}

// runUpdate executes an update method over (pre-state, source) pairs and judges every target field.
func runUpdate(o *Out, spec *Spec, r *Ref, m *MethodSpec) {
	fn := r.Callables[m.Name]
	ft := fn.Type()
	ev := &MethodEvent{Ev: "method", Case: spec.Case, Method: m.Name}
	defer func() { ev.NViol += len(ev.Violations); o.Emit(ev) }()
	addViol := func(v Violation) {
		if len(ev.Violations) < 6 {
			ev.Violations = append(ev.Violations, v)
		} else {
			ev.NViol++
		}
	}
	srcIdx, tgtIdx := -1, -1
	for i := 0; i < ft.NumIn(); i++ {
		switch m.Roles[i] {
		case "source":
			srcIdx = i
		case "target":
			tgtIdx = i
		}
	}
	if srcIdx < 0 || tgtIdx < 0 || ft.In(tgtIdx).Kind() != reflect.Ptr {
		ev.AbstainWhy = "not an update signature"
		return
	}
	S := ft.In(srcIdx)
	TP := ft.In(tgtIdx)
	T := TP.Elem()
	ev.SrcType, ev.TgtType = S.String(), TP.String()
	SS := S
	if SS.Kind() == reflect.Ptr {
		SS = SS.Elem()
	}
	gs := NewGen(spec.Seed*101 + 1)
	gt := NewGen(spec.Seed*103 + 2)
	gs.Share, gt.Share = false, false
	n := spec.NValues
	if n < 9 {
		n = 9
	}
	flags := m.Flags
	for i := 0; i < n; i++ {
		// source: zero / full / random with many zero fields; pre-state: zero / full / random
		switch i % 3 {
		case 0:
			gs.Mode = GenZero
		case 1:
			gs.Mode = GenFull
		default:
			gs.Mode = GenRandom
		}
		switch (i / 3) % 3 {
		case 0:
			gt.Mode = GenFull
		case 1:
			gt.Mode = GenZero
		default:
			gt.Mode = GenRandom
		}
		src := gs.Value(S)
		if gs.Mode == GenRandom && SS.Kind() == reflect.Struct {
			// zero out a random subset of the top-level source fields
			base := src
			if S.Kind() == reflect.Ptr {
				if src.IsNil() {
					base = reflect.Value{}
				} else {
					base = src.Elem()
				}
			}
			if base.IsValid() {
				for f := 0; f < base.NumField(); f++ {
					if gs.R.Intn(2) == 0 {
						fv := field(base, f)
						fv.Set(reflect.Zero(fv.Type()))
					}
				}
			}
		}
		if S.Kind() == reflect.Ptr && i%7 == 6 {
			src = reflect.Zero(S) // nil source pointer
		}
		pre := gt.Value(T)
		tp := reflect.New(T)
		tp.Elem().Set(pre)
		before := Clone(tp.Elem())
		srcSnap := Clone(src)
		srcStr, preStr := Format(src), Format(before)
		args := make([]reflect.Value, ft.NumIn())
		r.Ctx = map[reflect.Type]reflect.Value{}
		WalkCtx = r.Ctx
		var ctxSnaps []reflect.Value
		for a := 0; a < ft.NumIn(); a++ {
			switch a {
			case srcIdx:
				args[a] = src
			case tgtIdx:
				args[a] = tp
			default:
				cg := NewGen(spec.Seed + int64(i*13+a))
				cg.Mode = GenFull
				cv := cg.Value(ft.In(a))
				args[a] = cv
				r.Ctx[ft.In(a)] = cv
				ctxSnaps = append(ctxSnaps, Clone(cv))
			}
		}
		ev.Values++
		res, perr, pstack := safeCall(fn, args)
		if perr != "" {
			ev.Panics++
			addViol(Violation{Kind: "panic", Method: m.Name, ValueI: i, Detail: perr + "\n" + pstack, Source: srcStr, Want: "pre-state " + preStr})
			continue
		}
		if len(res) > 1 {
			addViol(Violation{Kind: "update_results", Method: m.Name, Detail: "update method returns more than an error"})
		}
		if len(res) == 1 && !res[0].IsNil() {
			addViol(Violation{Kind: "unexpected_error", Method: m.Name, ValueI: i, Detail: res[0].Interface().(error).Error(), Source: srcStr})
			continue
		}
		after := tp.Elem()
		if ok, p := Equal(src, srcSnap); !ok {
			addViol(Violation{Kind: "source_modified", Method: m.Name, ValueI: i, Detail: "at " + p, Source: srcStr})
		}
		// nothing but the pointee of the update ARG may change: the context arguments must be untouched
		k := 0
		for a := 0; a < ft.NumIn(); a++ {
			if a == srcIdx || a == tgtIdx {
				continue
			}
			if ok, p := Equal(args[a], ctxSnaps[k]); !ok {
				addViol(Violation{Kind: "source_modified", Method: m.Name, ValueI: i, Detail: fmt.Sprintf("context argument %d modified at %s", a, p), Source: srcStr})
			}
			k++
		}
		ev.Judged++
		mismatch := func(kind, fname, why string, want reflect.Value) {
			w := ""
			if want.IsValid() {
				w = Format(want)
			}
			addViol(Violation{Kind: kind, Method: m.Name, ValueI: i, Detail: fmt.Sprintf("field %s: %s", fname, why), Source: srcStr,
				Got: Format(after), Want: "pre-state " + preStr + " ; expected field value " + w})
		}
		// nil source pointer leaves the target untouched
		if S.Kind() == reflect.Ptr && src.IsNil() {
			if ok, p := Equal(after, before); !ok {
				mismatch("update_nil_source", "*", "nil source pointer but the target changed at "+p, reflect.Value{})
			}
			ev.NonTrivial++
			continue
		}
		sbase := src
		if S.Kind() == reflect.Ptr {
			sbase = src.Elem()
		}
		for f := 0; f < T.NumField(); f++ {
			tf := T.Field(f)
			fs := m.Fields[tf.Name]
			bf, af := field(before, f), field(after, f)
			keep := func(why string) {
				if ok, p := Equal(af, bf); !ok {
					mismatch("update_overwrote", tf.Name, why+" but the field changed at "+p, bf)
				}
			}
			if fs.Ignore {
				keep("ignored field")
				continue
			}
			if tf.PkgPath != "" && flags.IgnoreUnexported {
				keep("unexported field under ignoreUnexported")
				continue
			}
			if fs.NoSource && fs.Func != "" {
				// computed by a function without source: assigned on every call
				want, err := r.callFunc(r.Funcs[fs.Func], r.Callables[fs.Func], reflect.Value{}, tf.Type, nil)
				if err == nil {
					if ok, p := Equal(af, want); !ok {
						mismatch("update_value", tf.Name, "field computed by a source-less function differs at "+p, want)
					}
				}
				continue
			}
			var sv reflect.Value
			if len(fs.Path) == 1 && fs.Path[0] == "." {
				if fs.Func == "" && S.Kind() == reflect.Ptr && (flags.IZBasic || flags.IZStruct || flags.IZNillable) {
					// the nested struct is updated field by field by the pointer-source method itself; whether the
					// skipping of zero values extends into it is not stated: not judged
					ev.Abstained++
					ev.AbstainWhy = "map . into a nested struct under ignoreZeroValueField in a pointer-source update method"
					continue
				}
				sv = sbase
			} else if len(fs.Path) > 0 {
				v, _, err := walkPath(sbase, fs.Path)
				if err != nil {
					continue
				}
				sv = v
			} else {
				sf, ok := SS.FieldByName(tf.Name)
				if !ok {
					if flags.IgnoreMissing {
						keep("unmapped field (ignoreMissing)")
					}
					continue
				}
				sv = field(sbase, sf.Index[0])
			}
			if lt := pathLeafType(SS, fs.Path); lt != nil && lt.Kind() != reflect.Ptr && sv.Kind() == reflect.Ptr && sv.Type().Elem() == lt && fs.Func == "" {
				// a dotted path through a pointer hands the leaf over as a pointer; the SOURCE FIELD is the leaf
				if sv.IsNil() {
					continue // nil intermediate pointer: not constrained
				}
				leaf := sv.Elem()
				if isZeroDeep(leaf) {
					cat := zeroCategory(lt)
					if (cat == "basic" && flags.IZBasic) || (cat == "struct" && flags.IZStruct) || (cat == "nillable" && flags.IZNillable) {
						keep("zero-valued source field of a selected category (" + cat + ") reached by a path through a pointer")
					}
					continue
				}
			}
			zero := isZeroDeep(sv)
			if zero && fs.Func != "" && len(fs.Path) == 1 && fs.Path[0] == "." && funcTakesPointer(r.Callables[fs.Func], sv.Type()) {
				// the function receives the (non-nil) source pointer of the method: that value is not zero
				zero = false
			}
			if zero {
				cat := zeroCategory(sv.Type())
				selected := (cat == "basic" && flags.IZBasic) || (cat == "struct" && flags.IZStruct) || (cat == "nillable" && flags.IZNillable) ||
					(cat == "nillable-conditional" && flags.IZNillable && flags.SkipCopy && sv.Type() == tf.Type) ||
					// the value handed to a map|FUNC function is the source value of the field: slices and pointers count as nillable there
					(cat == "nillable-conditional" && flags.IZNillable && fs.Func != "")
				if selected {
					keep("zero-valued source field of a selected category (" + cat + ")")
				}
				// not selected: the property constrains only non-zero sources
				continue
			}
			var want reflect.Value
			var err error
			if fs.Func != "" {
				want, err = r.callFunc(r.Funcs[fs.Func], r.Callables[fs.Func], sv, tf.Type, nil)
			} else {
				want, err = r.Field(m, sv, tf.Type, []string{"field:" + tf.Name})
			}
			if err != nil {
				ev.Abstained++
				ev.AbstainWhy = err.Error()
				continue
			}
			if ok, p := Equal(af, want); !ok {
				mismatch("update_value", tf.Name, "non-zero source value must replace the field, differs at "+p, want)
			}
		}
		ev.NonTrivial++
		if i == 4 {
			ev.SampleSrc, ev.SampleRes = srcStr+" onto "+preStr, Format(after)
		}
	}
}

// funcTakesPointer reports whether fn has a parameter of type *t.
func funcTakesPointer(fn reflect.Value, t reflect.Type) bool {
	if !fn.IsValid() {
		return false
	}
	ft := fn.Type()
	for i := 0; i < ft.NumIn(); i++ {
		if ft.In(i) == reflect.PtrTo(t) {
			return true
		}
	}
	return false
}

// pathLeafType returns the declared type of the last element of a dotted source path (nil if unknown).
func pathLeafType(S reflect.Type, p []string) reflect.Type {
	if len(p) == 0 || (len(p) == 1 && p[0] == ".") {
		return nil
	}
	cur := S
	for _, name := range p {
		if cur.Kind() == reflect.Ptr {
			cur = cur.Elem()
		}
		if cur.Kind() != reflect.Struct {
			return nil
		}
		sf, ok := cur.FieldByName(name)
		if !ok {
			return nil
		}
		cur = sf.Type
	}
	return cur
}

package vref

import (
	"bufio"
	"encoding/json"
	"errors"
	"fmt"
	"math/rand"
	"os"
	"reflect"
	"regexp"
	"runtime/debug"
	"sort"
	"strings"
	"sync"
)

// Spec is the expectation a case hands to the runtime harness.
type Spec struct {
	Case      string               `json:"case"`
	Seed      int64                `json:"seed"`
	NValues   int                  `json:"nvalues"`
	Monitors  []string             `json:"monitors"` // value alias intact mutate concurrent
	Conv      Flags                `json:"conv"`
	Methods   []*MethodSpec        `json:"methods"`
	Funcs     []*FuncSpec          `json:"funcs,omitempty"`
	Enums     map[string]*EnumSpec `json:"enums,omitempty"`
	EnumPairs []*EnumPair          `json:"enumPairs,omitempty"`
	MaxDepth  int                  `json:"maxDepth,omitempty"`
	MaxFaults int                  `json:"maxFaults,omitempty"`
}

func (s *Spec) has(m string) bool {
	for _, x := range s.Monitors {
		if x == m {
			return true
		}
	}
	return false
}

// Violation is one oracle failure.
type Violation struct {
	Kind   string `json:"kind"`
	Method string `json:"method"`
	ValueI int    `json:"value_index"`
	Detail string `json:"detail"`
	Source string `json:"source,omitempty"`
	Got    string `json:"got,omitempty"`
	Want   string `json:"want,omitempty"`
}

// MethodEvent summarises what was observed for one method.
type MethodEvent struct {
	Ev             string      `json:"ev"`
	Case           string      `json:"case"`
	Method         string      `json:"method"`
	Values         int         `json:"values"`
	Judged         int         `json:"judged"`     // compared against the reference
	NonTrivial     int         `json:"nontrivial"` // source had >=1 non-nil container
	Abstained      int         `json:"abstained"`
	AbstainWhy     string      `json:"abstain_why,omitempty"`
	Panics         int         `json:"panics"`
	AliasChecks    int         `json:"alias_checks"`
	SharedOK       int         `json:"shared_ok"` // values where allowed sharing was observed
	ConcCalls      int         `json:"conc_calls"`
	Errors         int         `json:"errors"`
	Violations     []Violation `json:"violations,omitempty"`
	NViol          int         `json:"nviol"`
	SampleSrc      string      `json:"sample_src,omitempty"`
	SampleRes      string      `json:"sample_res,omitempty"`
	SrcType        string      `json:"src_type"`
	TgtType        string      `json:"tgt_type"`
	Digests        int         `json:"distinct_sources"`
	ExpectedPanics int         `json:"expected_panics"`
	ExpectedErrors int         `json:"expected_errors"`
	FaultRuns      int         `json:"fault_runs"`  // executions under a non-empty fault plan
	FaultSites     int         `json:"fault_sites"` // distinct fallible call sites enumerated
	PathChecks     int         `json:"path_checks"` // error paths compared with the expected location
}

// Out is the JSONL event sink of a batch binary.
type Out struct {
	mu   sync.Mutex
	w    *bufio.Writer
	f    *os.File
	skip map[string]bool
}

// Open creates the sink from argv: <logfile> [skipcase...]
func Open(args []string) *Out {
	if len(args) < 1 {
		fmt.Fprintln(os.Stderr, "usage: batch <logfile> [skip...]")
		os.Exit(3)
	}
	f, err := os.OpenFile(args[0], os.O_CREATE|os.O_WRONLY|os.O_APPEND, 0o644)
	if err != nil {
		fmt.Fprintln(os.Stderr, err)
		os.Exit(3)
	}
	o := &Out{f: f, w: bufio.NewWriter(f), skip: map[string]bool{}}
	for _, s := range args[1:] {
		o.skip[s] = true
	}
	return o
}

func (o *Out) Emit(v any) {
	o.mu.Lock()
	defer o.mu.Unlock()
	b, _ := json.Marshal(v)
	o.w.Write(b)
	o.w.WriteByte('\n')
	o.w.Flush()
}

func (o *Out) Close() {
	o.Emit(map[string]any{"ev": "batch_end"})
	o.f.Close()
}

// Do runs one case under a recover and brackets it with begin/end events.
func (o *Out) Do(name string, run func(o *Out)) {
	if o.skip[name] {
		return
	}
	o.Emit(map[string]any{"ev": "begin", "case": name})
	func() {
		defer func() {
			if r := recover(); r != nil {
				o.Emit(map[string]any{"ev": "harness_panic", "case": name, "panic": fmt.Sprint(r), "stack": string(debug.Stack())})
			}
		}()
		run(o)
	}()
	o.Emit(map[string]any{"ev": "end", "case": name})
}

// RunCase executes every method of the spec on generated values under the monitors.
func RunCase(o *Out, specJSON string, callables map[string]any) {
	var spec Spec
	if err := json.Unmarshal([]byte(specJSON), &spec); err != nil {
		panic("bad spec: " + err.Error())
	}
	r := &Ref{
		Conv:      spec.Conv,
		Methods:   map[[2]reflect.Type]*MethodSpec{},
		Extends:   map[[2]reflect.Type]*boundFunc{},
		Callables: map[string]reflect.Value{},
		Funcs:     map[string]*FuncSpec{},
		Enums:     spec.Enums,
		EnumPairs: map[string]*EnumPair{},
	}
	for _, p := range spec.EnumPairs {
		r.EnumPairs[p.Src+"->"+p.Tgt] = p
	}
	for k, c := range callables {
		r.Callables[k] = reflect.ValueOf(c)
	}
	if impl, ok := callables["@impl"]; ok {
		r.Impl = reflect.ValueOf(impl)
	}
	for _, f := range spec.Funcs {
		r.Funcs[f.Key] = f
		fn, ok := r.Callables[f.Key]
		if !ok {
			panic("spec names unknown callable " + f.Key)
		}
		if f.Kind == "extend" {
			st, tt := sigTypes(fn.Type(), f.Roles)
			if st != nil {
				r.Extends[[2]reflect.Type{st, tt}] = &boundFunc{spec: f, fn: fn}
			}
		}
	}
	for _, m := range spec.Methods {
		fn, ok := r.Callables[m.Name]
		if !ok {
			panic("spec names unknown method " + m.Name)
		}
		st, tt := sigTypes(fn.Type(), m.Roles)
		if st != nil && !hasRole(m.Roles, "target") {
			r.Methods[[2]reflect.Type{st, tt}] = m
		}
	}
	for _, m := range spec.Methods {
		if fn := r.Callables[m.Name]; fn.Kind() == reflect.Func && fn.IsNil() {
			o.Emit(&MethodEvent{Ev: "method", Case: spec.Case, Method: m.Name, NViol: 1,
				Violations: []Violation{{Kind: "unassigned_variable", Method: m.Name, Detail: "function variable is nil after init()"}}})
			continue
		}
		if hasRole(m.Roles, "target") {
			runUpdate(o, &spec, r, m)
			continue
		}
		if m.Default != "" {
			runDefault(o, &spec, r, m)
			continue
		}
		runMethod(o, &spec, r, m)
	}
}

func hasRole(roles []string, r string) bool {
	for _, x := range roles {
		if x == r {
			return true
		}
	}
	return false
}

func sigTypes(ft reflect.Type, roles []string) (reflect.Type, reflect.Type) {
	var st, tt reflect.Type
	for i := 0; i < ft.NumIn(); i++ {
		role := "source"
		if i < len(roles) {
			role = roles[i]
		}
		switch role {
		case "source":
			st = ft.In(i)
		case "target":
			tt = ft.In(i)
		}
	}
	if tt == nil && ft.NumOut() > 0 {
		tt = ft.Out(0)
	}
	return st, tt
}

func modeFor(i int) (GenMode, int) {
	switch i {
	case 0:
		return GenZero, -1
	case 1:
		return GenEmpty, -1
	case 2:
		return GenFull, -1
	case 3:
		return GenExtremes, -1
	}
	return GenRandom, -1
}

func runMethod(o *Out, spec *Spec, r *Ref, m *MethodSpec) {
	fn := r.Callables[m.Name]
	ft := fn.Type()
	ev := &MethodEvent{Ev: "method", Case: spec.Case, Method: m.Name}
	defer func() { ev.NViol = len(ev.Violations); o.Emit(ev) }()
	srcIdx := -1
	for i := 0; i < ft.NumIn(); i++ {
		role := "source"
		if i < len(m.Roles) {
			role = m.Roles[i]
		}
		if role == "source" {
			srcIdx = i
		}
	}
	if srcIdx < 0 || ft.NumOut() == 0 {
		ev.AbstainWhy = "no source/result"
		return
	}
	S := ft.In(srcIdx)
	T := ft.Out(0)
	ev.SrcType, ev.TgtType = S.String(), T.String()
	g := NewGen(spec.Seed*7919 + int64(len(m.Name)))
	if spec.MaxDepth > 0 {
		g.MaxDepth = spec.MaxDepth
	}
	g.Share = true
	if spec.Enums != nil {
		g.Enums = map[string][]any{}
		for k, e := range spec.Enums {
			for _, n := range e.Order {
				g.Enums[k] = append(g.Enums[k], e.Members[n])
			}
		}
	}
	// how many nillable positions does a full value have?
	g.Mode = GenFull
	g.Value(S)
	nillable := g.NillableCount()
	if nillable > 24 {
		nillable = 24
	}
	n := spec.NValues
	if n < 4 {
		n = 4
	}
	digests := map[string]bool{}
	addViol := func(v Violation) {
		if len(ev.Violations) < 5 {
			ev.Violations = append(ev.Violations, v)
		} else {
			ev.NViol++
		}
	}
	for i := 0; i < n; i++ {
		g.NilAt = -1
		switch {
		case i < 4:
			g.Mode, _ = modeFor(i)
		case i-4 < nillable:
			g.Mode = GenRandom
			g.NilAt = i - 4
		default:
			g.Mode = GenRandom
		}
		src := g.Value(S)
		g.NilAt = -1
		ev.Values++
		srcStr := Format(src)
		digests[srcStr] = true
		nontrivial := HasContainer(src)
		snap := Clone(src)
		srcAddrs := Addrs(src)
		args := make([]reflect.Value, ft.NumIn())
		r.Ctx = map[reflect.Type]reflect.Value{}
		WalkCtx = r.Ctx
		for a := 0; a < ft.NumIn(); a++ {
			if a == srcIdx {
				args[a] = src
				continue
			}
			cg := NewGen(spec.Seed + int64(i*31+a))
			cg.Mode = GenFull
			cv := cg.Value(ft.In(a))
			args[a] = cv
			r.Ctx[ft.In(a)] = cv
		}
		ctxSnap := map[int]reflect.Value{}
		if spec.has("intact") {
			for a := range args {
				if a != srcIdx {
					ctxSnap[a] = Clone(args[a])
				}
			}
		}
		res, perr, pstack := safeCall(fn, args)
		for a, snapc := range ctxSnap {
			if ok, p := Equal(args[a], snapc); !ok {
				addViol(Violation{Kind: "source_modified", Method: m.Name, ValueI: i, Detail: fmt.Sprintf("context argument %d modified at %s", a, p), Source: srcStr})
			}
		}
		if perr != "" {
			// a panic is the documented outcome only for the enum @panic action
			expected := false
			if spec.has("value") && !m.NoValue && len(r.EnumPairs) > 0 {
				_, mayPanic := r.enumOutcomes(snap)
				expected = mayPanic
			}
			if expected {
				ev.Judged++
				ev.ExpectedPanics++
				continue
			}
			ev.Panics++
			addViol(Violation{Kind: "panic", Method: m.Name, ValueI: i, Detail: perr + "\n" + pstack, Source: srcStr})
			continue
		}
		out := res[0]
		var callErr error
		if len(res) == 2 && !res[1].IsNil() {
			callErr = res[1].Interface().(error)
			ev.Errors++
		}
		if i == 2 {
			ev.SampleSrc, ev.SampleRes = srcStr, Format(out)
		}
		r.Allowed = nil
		if spec.has("value") && !m.NoValue {
			want, err := r.Method(m, src, T)
			switch e := err.(type) {
			case nil:
				if callErr != nil {
					addViol(Violation{Kind: "unexpected_error", Method: m.Name, ValueI: i, Detail: callErr.Error(), Source: srcStr})
				} else {
					ev.Judged++
					if nontrivial {
						ev.NonTrivial++
					}
					if ok, p := Equal(out, want); !ok {
						addViol(Violation{Kind: "value", Method: m.Name, ValueI: i, Detail: "at " + p, Source: srcStr, Got: Format(out), Want: Format(want)})
					}
				}
			case *Unsupported:
				ev.Abstained++
				ev.AbstainWhy = e.Why
			case *RefPanic:
				ev.Judged++
				// with several failing elements the iteration order decides which one is hit first
				if mayErr, _ := r.enumOutcomes(snap); !(mayErr && callErr != nil) {
					addViol(Violation{Kind: "missing_panic", Method: m.Name, ValueI: i, Detail: e.Error(), Source: srcStr, Got: Format(out)})
				}
			case *RefError:
				ev.Judged++
				ev.ExpectedErrors++
				if callErr == nil {
					addViol(Violation{Kind: "missing_error", Method: m.Name, ValueI: i, Detail: e.Error(), Source: srcStr})
				}
			default:
				ev.Abstained++
				ev.AbstainWhy = err.Error()
			}
		} else if nontrivial {
			ev.NonTrivial++
		}
		if spec.has("intact") {
			if ok, p := Equal(src, snap); !ok {
				addViol(Violation{Kind: "source_modified", Method: m.Name, ValueI: i, Detail: "at " + p, Source: srcStr, Got: Format(src)})
			}
			after := Addrs(src)
			if !sameAddrs(srcAddrs, after) {
				addViol(Violation{Kind: "source_pointers_modified", Method: m.Name, ValueI: i, Source: srcStr})
			}
		}
		if spec.has("alias") && callErr == nil {
			if !spec.has("value") || m.NoValue {
				// still need the allowed set: run the reference for its side effect
				r.Allowed = nil
				r.Method(m, src, T)
			}
			ev.AliasChecks++
			resAddrs := Addrs(out)
			if bad, x, y := Overlap(srcAddrs, resAddrs, r.Allowed); bad {
				addViol(Violation{Kind: "alias", Method: m.Name, ValueI: i,
					Detail: fmt.Sprintf("result%s (%s) shares memory with source%s (%s)", y.Path, y.Kind, x.Path, x.Kind), Source: srcStr})
			}
			if len(r.Allowed) > 0 {
				if shared, _, _ := Overlap(srcAddrs, resAddrs, nil); shared {
					ev.SharedOK++
				}
			}
			if spec.has("mutate") && len(r.Allowed) == 0 {
				// forward: overwrite every mutable location of the result, the source must not move
				ao := Addressable(out)
				Scramble(ao)
				if ok, p := Equal(src, snap); !ok {
					addViol(Violation{Kind: "mutating_result_changed_source", Method: m.Name, ValueI: i, Detail: "at " + p, Source: srcStr})
				} else {
					// reverse: overwrite the source, the result must not move
					outSnap := Clone(ao)
					Scramble(src)
					if ok, p := Equal(ao, outSnap); !ok {
						addViol(Violation{Kind: "mutating_source_changed_result", Method: m.Name, ValueI: i, Detail: "at " + p, Source: srcStr})
					}
				}
			}
		}
	}
	ev.Digests = len(digests)
	if spec.has("faults") && ft.NumOut() == 2 {
		runFaults(spec, r, m, fn, S, T, srcIdx, ev, addViol)
	}
	if spec.has("concurrent") {
		runConcurrent(spec, r, m, fn, S, srcIdx, ev)
	}
}

func sameAddrs(a, b []Interval) bool {
	if len(a) != len(b) {
		return false
	}
	key := func(x []Interval) []string {
		out := make([]string, len(x))
		for i, iv := range x {
			out[i] = fmt.Sprintf("%x-%x", iv.Lo, iv.Hi)
		}
		sort.Strings(out)
		return out
	}
	ka, kb := key(a), key(b)
	for i := range ka {
		if ka[i] != kb[i] {
			return false
		}
	}
	return true
}

func safeCall(fn reflect.Value, args []reflect.Value) (res []reflect.Value, perr, stack string) {
	defer func() {
		if r := recover(); r != nil {
			perr = fmt.Sprint(r)
			st := string(debug.Stack())
			// keep the frames of emitted code
			var keep []string
			lines := strings.Split(st, "\n")
			for i := 0; i < len(lines); i++ {
				if strings.Contains(lines[i], "vcase/") && !strings.Contains(lines[i], "vcase/vref") {
					keep = append(keep, strings.TrimSpace(lines[i]))
				}
			}
			if len(keep) > 8 {
				keep = keep[:8]
			}
			stack = strings.Join(keep, "\n")
		}
	}()
	res = callFn(fn, args)
	return
}

// runConcurrent calls the method from several goroutines on one shared source
// while reader goroutines touch every word of it. Under the race detector a
// write to shared source memory, or unsynchronised package-level state in the
// emitted code, yields a report.
func runConcurrent(spec *Spec, r *Ref, m *MethodSpec, fn reflect.Value, S reflect.Type, srcIdx int, ev *MethodEvent) {
	ft := fn.Type()
	g := NewGen(spec.Seed*13 + 5)
	g.Share = true
	g.Mode = GenRandom
	for round := 0; round < 3; round++ {
		if round == 0 {
			g.Mode = GenFull
		} else {
			g.Mode = GenRandom
		}
		src := g.Value(S)
		mkArgs := func() []reflect.Value {
			args := make([]reflect.Value, ft.NumIn())
			for a := 0; a < ft.NumIn(); a++ {
				if a == srcIdx {
					args[a] = src
				} else {
					cg := NewGen(int64(a))
					cg.Mode = GenFull
					args[a] = cg.Value(ft.In(a))
				}
			}
			return args
		}
		var wg sync.WaitGroup
		results := make([]reflect.Value, 6)
		start := make(chan struct{})
		for w := 0; w < 6; w++ {
			wg.Add(1)
			go func(w int) {
				defer wg.Done()
				defer func() { recover() }()
				args := mkArgs()
				<-start
				for k := 0; k < 15; k++ {
					out := callFn(fn, args)
					results[w] = out[0]
				}
			}(w)
		}
		for w := 0; w < 2; w++ {
			wg.Add(1)
			go func() {
				defer wg.Done()
				<-start
				for k := 0; k < 15; k++ {
					Touch(src)
				}
			}()
		}
		close(start)
		wg.Wait()
		ev.ConcCalls += 6 * 15
		// all goroutines must have produced equal results
		for w := 1; w < 6; w++ {
			if results[0].IsValid() && results[w].IsValid() {
				if ok, p := Equal(results[0], results[w]); !ok {
					ev.Violations = append(ev.Violations, Violation{Kind: "concurrent_results_differ", Method: m.Name, Detail: "at " + p})
				}
			}
		}
	}
}

// Check lets hand-written glue report one observation for a case.
func (o *Out) Check(caseName, method string, ok bool, kind, detail string) {
	ev := &MethodEvent{Ev: "method", Case: caseName, Method: method, Values: 1, Judged: 1, NonTrivial: 1}
	if !ok {
		ev.Violations = []Violation{{Kind: kind, Method: method, Detail: detail}}
		ev.NViol = 1
	}
	o.Emit(ev)
}

// Try runs f and reports a panic as a violation.
func (o *Out) Try(caseName, method string, f func()) {
	defer func() {
		if r := recover(); r != nil {
			o.Check(caseName, method, false, "panic", fmt.Sprint(r))
		}
	}()
	f()
}

var wrapFieldRe = regexp.MustCompile(`error setting (field (\S+?)|index (\d+)): `)

// runFaults enumerates fault plans: every single reachable fallible call of a value, then a few subsets.
func runFaults(spec *Spec, r *Ref, m *MethodSpec, fn reflect.Value, S, T reflect.Type, srcIdx int, ev *MethodEvent, addViol func(Violation)) {
	ft := fn.Type()
	g := NewGen(spec.Seed*31 + 7)
	g.UniqueLeaves = true
	g.Share = false
	maxSites := spec.MaxFaults
	if maxSites == 0 {
		maxSites = 30
	}
	defer SetFaultPlan()
	for round := 0; round < 3; round++ {
		if round == 0 {
			g.Mode = GenFull
		} else {
			g.Mode = GenRandom
		}
		src := g.Value(S)
		srcStr := Format(src)
		args := make([]reflect.Value, ft.NumIn())
		r.Ctx = map[reflect.Type]reflect.Value{}
		WalkCtx = r.Ctx
		for a := 0; a < ft.NumIn(); a++ {
			if a == srcIdx {
				args[a] = src
				continue
			}
			cg := NewGen(spec.Seed + int64(round*17+a))
			cg.Mode = GenFull
			cv := cg.Value(ft.In(a))
			args[a] = cv
			r.Ctx[ft.In(a)] = cv
		}
		// which fallible calls does this value reach?
		SetFaultPlan()
		RecordCalls(true)
		_, refErr := r.Method(m, src, T)
		ids := RecordCalls(false)
		if refErr != nil {
			if _, ok := refErr.(*Unsupported); ok {
				ev.Abstained++
				ev.AbstainWhy = refErr.Error()
				return
			}
		}
		seen := map[int64]bool{}
		var sites []int64
		for _, id := range ids {
			if !seen[id] {
				seen[id] = true
				sites = append(sites, id)
			}
		}
		if len(sites) > maxSites {
			sites = sites[:maxSites]
		}
		ev.FaultSites += len(sites)
		check := func(plan []int64, single bool) {
			SetFaultPlan(plan...)
			res, perr, pstack := safeCall(fn, args)
			ev.FaultRuns++
			if perr != "" {
				addViol(Violation{Kind: "panic", Method: m.Name, Detail: perr + "\n" + pstack, Source: srcStr})
				return
			}
			var got error
			if !res[1].IsNil() {
				got = res[1].Interface().(error)
			}
			_, want := r.Method(m, src, T)
			re, isRef := want.(*RefError)
			if !isRef {
				// the plan is not reachable from this value according to the reference: nothing to compare
				return
			}
			if got == nil {
				addViol(Violation{Kind: "error_swallowed", Method: m.Name, Detail: fmt.Sprintf("custom function failed for call id(s) %v at %v but the method returned a nil error", plan, re.Path), Source: srcStr, Got: Format(res[0])})
				return
			}
			var inj *Injected
			if !errors.As(got, &inj) {
				addViol(Violation{Kind: "error_not_wrapped", Method: m.Name, Detail: fmt.Sprintf("returned error %q does not wrap the failing function's error (plan %v)", got.Error(), plan), Source: srcStr})
				return
			}
			inPlan := false
			for _, id := range plan {
				if id == inj.ID {
					inPlan = true
				}
			}
			if !inPlan {
				addViol(Violation{Kind: "error_identity", Method: m.Name, Detail: fmt.Sprintf("returned error wraps injected fault %d which is not in the plan %v", inj.ID, plan), Source: srcStr})
				return
			}
			if !single {
				return
			}
			// location path
			var exp []string
			if ire, ok := want.(*RefError); ok {
				exp = ire.Path
			}
			switch m.WrapMode {
			case "using":
				ev.PathChecks++
				gotPath := wrapPath(got)
				if strings.Join(gotPath, " ") != strings.Join(exp, " ") {
					addViol(Violation{Kind: "error_path", Method: m.Name, Detail: fmt.Sprintf("wrapErrorsUsing location %v, expected %v (fault %d)", gotPath, exp, plan[0]), Source: srcStr})
				}
			case "wrapErrors":
				ev.PathChecks++
				var gotSeq []string
				for _, mm := range wrapFieldRe.FindAllStringSubmatch(got.Error(), -1) {
					if mm[2] != "" {
						gotSeq = append(gotSeq, "field:"+mm[2])
					} else {
						gotSeq = append(gotSeq, "index:"+mm[3])
					}
				}
				// ordered subsequence of the expected location
				j := 0
				for _, e := range exp {
					if j < len(gotSeq) && gotSeq[j] == e {
						j++
					}
				}
				if j != len(gotSeq) {
					addViol(Violation{Kind: "error_path", Method: m.Name, Detail: fmt.Sprintf("wrapErrors prefixes %v are not an ordered subsequence of the location %v (fault %d): %s", gotSeq, exp, plan[0], got.Error()), Source: srcStr})
				} else if len(exp) > 0 && !strings.HasPrefix(exp[len(exp)-1], "key:") {
					// the method in which the call fails adds the innermost element it was setting: the last prefix
					// must be the last element of the location
					if len(gotSeq) == 0 {
						addViol(Violation{Kind: "error_path", Method: m.Name, Detail: fmt.Sprintf("wrapErrors added no location although the failing element is %v: %s", exp, got.Error()), Source: srcStr})
					} else if gotSeq[len(gotSeq)-1] != exp[len(exp)-1] {
						addViol(Violation{Kind: "error_path", Method: m.Name, Detail: fmt.Sprintf("wrapErrors innermost element is %s, the failing element is %s (location %v, fault %d): %s", gotSeq[len(gotSeq)-1], exp[len(exp)-1], exp, plan[0], got.Error()), Source: srcStr})
					}
				}
			}
		}
		for _, id := range sites {
			check([]int64{id}, true)
		}
		// a few multi-fault plans
		rr := rand.New(rand.NewSource(spec.Seed + int64(round)))
		for k := 0; k < 3 && len(sites) >= 2; k++ {
			n := 2 + rr.Intn(2)
			var plan []int64
			for x := 0; x < n; x++ {
				plan = append(plan, sites[rr.Intn(len(sites))])
			}
			check(plan, false)
		}
		// and the empty plan must succeed with the reference value
		SetFaultPlan()
		res, perr, _ := safeCall(fn, args)
		if perr == "" && !res[1].IsNil() {
			addViol(Violation{Kind: "unexpected_error", Method: m.Name, Detail: "error without any planned fault: " + res[1].Interface().(error).Error(), Source: srcStr})
		}
	}
}

// wrapPath concatenates the recorded Wrap elements, outermost first.
func wrapPath(err error) []string {
	var out []string
	for err != nil {
		if w, ok := err.(interface{ PathStrings() []string }); ok {
			out = append(out, w.PathStrings()...)
		}
		u, ok := err.(interface{ Unwrap() error })
		if !ok {
			break
		}
		err = u.Unwrap()
	}
	return out
}

// callFn calls fn; the slice given for a variadic parameter is passed as x...
func callFn(fn reflect.Value, args []reflect.Value) []reflect.Value {
	if fn.Type().IsVariadic() {
		return fn.CallSlice(args)
	}
	return fn.Call(args)
}
